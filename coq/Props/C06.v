(* C06 — gradients of eigenpairs and singular triplets are exact, incl. degeneracy. *)
From mathcomp Require Import all_ssreflect all_algebra.
From XV Require Import Base.Deriv Base.MxDeriv Proofs.SymeigBackward Proofs.SymeigDense.
Import GRing.Theory.
Local Open Scope ring_scope.

(* T1 (Hellmann-Feynman): for A x = e M x, x^T M x = 1, A and M symmetric, and ANY derivation D (any
   parameter, any order of differentiation re-applies it):  de = x^T (dA - e dM) x  *)
Theorem C06_eigval_tangent : forall (R : comRingType) (D : derivation R) n (A M : 'M[R]_n) (x : 'cV[R]_n) (e : R),
  A^T = A -> M^T = M -> A *m x = e *: (M *m x) -> dot x (M *m x) = 1 ->
  D e = dot x (dmx D A *m x) - e * dot x (dmx D M *m x).
Proof. exact eigval_tangent. Qed.
Print Assumptions C06_eigval_tangent.

(* T2: the tangent of the eigenvector solves the shifted system, and its M-parallel part is fixed by
   the normalisation *)
Theorem C06_eigvec_tangent : forall (R : comRingType) (D : derivation R) n (A M : 'M[R]_n) (x : 'cV[R]_n) (e : R),
  A *m x = e *: (M *m x) ->
  A *m dmx D x - e *: (M *m dmx D x) = - (dmx D A *m x - e *: (dmx D M *m x)) + D e *: (M *m x).
Proof. exact eigvec_tangent. Qed.
Print Assumptions C06_eigvec_tangent.

Theorem C06_norm_tangent : forall (R : comRingType) (D : derivation R) n (M : 'M[R]_n) (x : 'cV[R]_n),
  M^T = M -> dot x (M *m x) = 1 ->
  dot x (M *m dmx D x) + dot x (M *m dmx D x) = - dot x (dmx D M *m x).
Proof. exact norm_tangent. Qed.
Print Assumptions C06_norm_tangent.

(* T3: the backward pass of symeig_torchfcn for one kept, non-degenerate column, with M, partial spectrum:
   with b the projected cotangent, v the answer of the shifted solve, w its re-orthogonalisation, the two
   accumulated cotangents  accA = ge x + w  (pulled back through A.mm(X)) and
   accM = -ge e x - e w - 1/2 <g, x> x  (pulled back through M.mm(X)) reproduce, for EVERY tangent,
   <g, dx> + ge de.  All five terms of the code (value, vector, M-value, M-vector, parallel) are needed. *)
Theorem C06_eigpair_backward_adjoint : forall (R : comRingType) (D : derivation R) n (A M : 'M[R]_n) (x : 'cV[R]_n) (e : R),
  A^T = A -> M^T = M -> A *m x = e *: (M *m x) -> dot x (M *m x) = 1 ->
  forall half : R, half + half = 1 ->
  forall (g v : 'cV[R]_n) (ge : R),
  A *m v - e *: (M *m v) = - (g - dot g x *: (M *m x)) ->
  let w := v - dot (M *m v) x *: x in
  let accA := ge *: x + w in
  let accM := - (ge * e) *: x - e *: w - (half * dot g x) *: x in
  dot g (dmx D x) + ge * D e = dot accA (dmx D A *m x) + dot accM (dmx D M *m x).
Proof. move=> R D n A M x e HA HM He Hn half Hh g v ge Hs; exact: (eigpair_backward_adjoint D HA HM He Hn Hh ge Hs). Qed.
Print Assumptions C06_eigpair_backward_adjoint.

(* T4: the dense path (degen_symeig.backward), full spectrum with pairwise distinct eigenvalues, real symmetric case:
   with W = Y^T G, F_ij = 1/(e_j - e_i) off the diagonal and 0 on it, R = Y (F o W) Y^T + Y diag(ge) Y^T, the
   symmetrised result (R + R^T)/2 - exactly the code - reproduces <G, dY> + sum_i ge_i de_i for EVERY symmetric
   tangent dA (any size, any field with a derivation and 1/2).  The masked entries of the code (|e_j - e_i| below the
   threshold) are the diagonal ones here; exact degeneracies: T5 below *)
Theorem C06_dense_backward_adjoint : forall (F : fieldType) (D : derivation F) n (A Y : 'M[F]_n) (e : 'rV[F]_n),
  A^T = A -> Y^T *m Y = 1%:M -> Y *m Y^T = 1%:M -> A *m Y = Y *m diag_mx e ->
  (forall i j, i != j -> e 0 i != e 0 j) ->
  forall half : F, half + half = 1 ->
  forall (G : 'M[F]_n) (ge : 'rV[F]_n),
  let Fm : 'M[F]_n := \matrix_(i, j) (if i == j then 0 else (e 0 j - e 0 i)^-1) in
  let FW : 'M[F]_n := \matrix_(i, j) (Fm i j * (Y^T *m G) i j) in
  let R := Y *m FW *m Y^T + Y *m diag_mx ge *m Y^T in
  \tr (G^T *m dmx D Y) + \sum_i ge 0 i * D (e 0 i) = \tr ((half *: (R + R^T))^T *m dmx D A).
Proof. move=> F D n A Y e HA H1 H2 He Hd half Hh G ge /=; exact: (degen_symeig_backward_adjoint D HA H1 H2 He Hd Hh). Qed.
Print Assumptions C06_dense_backward_adjoint.

(* T5: the SAME path when eigenvalues COINCIDE (second sentence of the property).  `mask` is the degeneracy map of the code
   (|e_i - e_j| below the threshold): any reflexive, symmetric relation such that the pairs it does not mask have distinct
   eigenvalues - exactly degenerate pairs MUST be masked, nearly degenerate ones may be.  If the cotangent meets the requirement
   the code itself tests in debug mode - Y^T G symmetric on the masked pairs - the result with the masked entries of F set to zero
   is finite (no division by e_j - e_i = 0 is ever formed) and reproduces <G, dY> + sum_i ge_i de_i for EVERY symmetric tangent dA
   and EVERY differentiable choice of the basis Y inside the degenerate subspaces. *)
Theorem C06_dense_backward_adjoint_degenerate : forall (F : fieldType) (D : derivation F) n (A Y : 'M[F]_n) (e : 'rV[F]_n),
  A^T = A -> Y^T *m Y = 1%:M -> Y *m Y^T = 1%:M -> A *m Y = Y *m diag_mx e ->
  forall half : F, half + half = 1 ->
  forall mask : rel 'I_n, (forall i, mask i i) -> (forall i j, mask i j = mask j i) ->
  (forall i j, ~~ mask i j -> e 0 i != e 0 j) ->
  forall (G : 'M[F]_n) (ge : 'rV[F]_n),
  (forall i j, mask i j -> (Y^T *m G) i j = (Y^T *m G) j i) ->
  let Fm : 'M[F]_n := \matrix_(i, j) (if mask i j then 0 else (e 0 j - e 0 i)^-1) in
  let FW : 'M[F]_n := \matrix_(i, j) (Fm i j * (Y^T *m G) i j) in
  let R := Y *m FW *m Y^T + Y *m diag_mx ge *m Y^T in
  \tr (G^T *m dmx D Y) + \sum_i ge 0 i * D (e 0 i) = \tr ((half *: (R + R^T))^T *m dmx D A).
Proof.
move=> F D n A Y e HA H1 H2 He half Hh mask Hr Hs Hd G ge Hq /=.
exact: (@degen_symeig_backward_adjoint_masked F D n A Y e HA H1 H2 He half Hh mask Hr Hs Hd G ge Hq).
Qed.
Print Assumptions C06_dense_backward_adjoint_degenerate.

(* the requirement IS "does not depend on the choice of basis inside the degenerate subspace", to first order: a loss whose
   differential vanishes along every rotation Y -> Y exp(tK), K antisymmetric and supported on the masked pairs, has Y^T G
   symmetric on them *)
Theorem C06_gauge_invariance_is_the_requirement : forall (F : fieldType) n (Y G : 'M[F]_n) (mask : rel 'I_n),
  (forall K : 'M[F]_n, K^T = - K -> (forall i j, ~~ mask i j -> K i j = 0) -> \tr (G^T *m (Y *m K)) = 0) ->
  forall i j, mask i j -> mask j i -> (Y^T *m G) i j = (Y^T *m G) j i.
Proof. exact gauge_invariance_gives_requirement. Qed.
Print Assumptions C06_gauge_invariance_is_the_requirement.

(* T6: the IMPLICIT path (symeig_torchfcn.backward with idx_degen) when kept eigenvalues COINCIDE - partial spectrum, with M,
   k kept columns, any size.  `mask` is the degeneracy map on the kept columns (reflexive, symmetric, relating only columns with
   equal eigenvalues); the cotangents meet the requirement the code tests in debug mode (X^T G symmetric on the masked pairs).
   With  b_i = g_i - sum_j (D o X^T G)_ji M x_j,  (A - e_i M) v_i = - b_i,  w_i = v_i - sum_j (D o X^T M V)_ji x_j,
   accA_i = ge_i x_i + w_i  and  accM_i = - ge_i e_i x_i - e_i w_i - 1/2 sum_j (D o X^T G)_ji x_j  - exactly the code, including
   the coupled parallel term of fix F29 - the accumulated cotangents reproduce  sum_i <g_i, dx_i> + ge_i de_i  for EVERY tangent
   dA, dM and EVERY differentiable choice of the basis inside the degenerate subspaces. *)
Theorem C06_eigpairs_backward_adjoint_degenerate :
  forall (R : comRingType) (D : derivation R) n k (A M : 'M[R]_n) (x : 'I_k -> 'cV[R]_n) (e : 'I_k -> R),
  A^T = A -> M^T = M -> (forall i, A *m x i = e i *: (M *m x i)) ->
  (forall i j, dot (x i) (M *m x j) = (i == j)%:R) ->
  forall half : R, half + half = 1 ->
  forall mask : rel 'I_k, (forall i, mask i i) -> (forall i j, mask i j = mask j i) -> (forall i j, mask i j -> e i = e j) ->
  forall (g v : 'I_k -> 'cV[R]_n) (ge : 'I_k -> R),
  (forall i j, mask i j -> dot (x i) (g j) = dot (x j) (g i)) ->
  let c := fun j i : 'I_k => if mask j i then dot (x j) (g i) else 0 in
  let b := fun i => g i - \sum_j c j i *: (M *m x j) in
  (forall i, A *m v i - e i *: (M *m v i) = - b i) ->
  let mv := fun j i : 'I_k => if mask j i then dot (x j) (M *m v i) else 0 in
  let w := fun i => v i - \sum_j mv j i *: x j in
  let accA := fun i => ge i *: x i + w i in
  let accM := fun i => - (ge i * e i) *: x i - e i *: w i - half *: \sum_j c j i *: x j in
  \sum_i (dot (g i) (dmx D (x i)) + ge i * D (e i)) =
  \sum_i (dot (accA i) (dmx D A *m x i) + dot (accM i) (dmx D M *m x i)).
Proof.
move=> R D n k A M x e HA HM He Ho half Hh mask Hr Hs Hd g v ge Hq c b Hv mv w accA accM.
exact: (@eigpairs_backward_adjoint_degenerate R D n k A M x e HA HM He Ho half Hh mask Hr Hs Hd g v ge Hq Hv).
Qed.
Print Assumptions C06_eigpairs_backward_adjoint_degenerate.

(* T7: the COMPLEX (Hermitian) case of the implicit path, one non-degenerate kept column, partial spectrum, with M.  cj is the
   conjugation (an involutive ring morphism), D a derivation commuting with it (a real parameter), A^H = conj(A^T); A, M Hermitian,
   e real, x^H M x = 1.  The eigenvector map is not holomorphic: the cotangent pairing is the REAL part of the Hermitian inner product
   (PyTorch's convention), and the gauge freedom is the phase of x - the loss must not depend on it, i.e. x^H g is real.  With the
   .conj() calls of the code (b = g - (x^H g) M x, w = v - (x^H M v) x, the parallel term -1/2 (x^H g) x):
        Re( g^H dx + ge de ) = Re( accA^H dA x + accM^H dM x )      for every tangent. *)
From XV Require Import Proofs.SymeigConj.
Theorem C06_eigpair_backward_adjoint_conjugate :
  forall (R : comRingType) (cj : {rmorphism R -> R}), involutive cj ->
  forall (D : derivation R), (forall a, D (cj a) = cj (D a)) ->
  forall n (A M : 'M[R]_n) (x : 'cV[R]_n) (e : R),
  map_mx cj A^T = A -> map_mx cj M^T = M -> cj e = e -> A *m x = e *: (M *m x) -> hdot cj x (M *m x) = 1 ->
  forall half : R, half + half = 1 ->
  forall (g v : 'cV[R]_n) (ge : R), cj ge = ge -> cj (hdot cj x g) = hdot cj x g ->
  A *m v - e *: (M *m v) = - (g - hdot cj x g *: (M *m x)) ->
  let w := v - hdot cj x (M *m v) *: x in
  let accA := ge *: x + w in
  let accM := - (ge * e) *: x - e *: w - (half * hdot cj x g) *: x in
  Re cj half (hdot cj g (dmx D x) + ge * D e) =
  Re cj half (hdot cj accA (dmx D A *m x) + hdot cj accM (dmx D M *m x)).
Proof.
move=> R cj cjK D Dcj n A M x e HA HM He Heig Hn half Hh g v ge Hge Hga Hv /=.
exact: (@eigpair_backward_adjoint_conj R cj cjK D Dcj n A M x e HA HM He Heig Hn half Hh g v ge Hge Hga Hv).
Qed.
Print Assumptions C06_eigpair_backward_adjoint_conjugate.

(* Hellmann-Feynman in the Hermitian case *)
Theorem C06_eigval_tangent_conjugate :
  forall (R : comRingType) (cj : {rmorphism R -> R}), involutive cj ->
  forall (D : derivation R) n (A M : 'M[R]_n) (x : 'cV[R]_n) (e : R),
  map_mx cj A^T = A -> map_mx cj M^T = M -> cj e = e -> A *m x = e *: (M *m x) -> hdot cj x (M *m x) = 1 ->
  D e = hdot cj x (dmx D A *m x) - e * hdot cj x (dmx D M *m x).
Proof. move=> R cj cjK D n A M x e HA HM He Heig Hn; exact: (eigval_tangent_conj cjK D HA HM He Heig Hn). Qed.
Print Assumptions C06_eigval_tangent_conjugate.

(* T8: the dense path in the COMPLEX Hermitian case, distinct or coinciding eigenvalues (Y unitary, e real, the masked degeneracy map
   of T5): for a cotangent with Y^H G Hermitian on the masked pairs - in particular a real diagonal: the phases of the columns - the
   code's result (R + R^H)/2 reproduces the real-part pairing for EVERY Hermitian tangent dA *)
From XV Require Import Proofs.SymeigDenseConj.
Theorem C06_dense_backward_adjoint_conjugate :
  forall (F : fieldType) (cj : {rmorphism F -> F}), involutive cj ->
  forall (D : derivation F), (forall a, D (cj a) = cj (D a)) ->
  forall n (A Y : 'M[F]_n) (e : 'rV[F]_n),
  map_mx cj A^T = A -> map_mx cj Y^T *m Y = 1%:M -> Y *m map_mx cj Y^T = 1%:M -> A *m Y = Y *m diag_mx e ->
  (forall i, cj (e 0 i) = e 0 i) ->
  forall half : F, half + half = 1 ->
  forall mask : rel 'I_n, (forall i, mask i i) -> (forall i j, mask i j = mask j i) ->
  (forall i j, ~~ mask i j -> e 0 i != e 0 j) ->
  forall (G : 'M[F]_n) (ge : 'rV[F]_n), (forall i, cj (ge 0 i) = ge 0 i) ->
  (forall i j, mask i j -> (map_mx cj Y^T *m G) i j = cj ((map_mx cj Y^T *m G) j i)) ->
  let Fm : 'M[F]_n := \matrix_(i, j) (if mask i j then 0 else (e 0 j - e 0 i)^-1) in
  let FW : 'M[F]_n := \matrix_(i, j) (Fm i j * (map_mx cj Y^T *m G) i j) in
  let R := Y *m FW *m map_mx cj Y^T + Y *m diag_mx ge *m map_mx cj Y^T in
  Re cj half (\tr (map_mx cj G^T *m dmx D Y) + \sum_i ge 0 i * D (e 0 i)) =
  Re cj half (\tr (map_mx cj (half *: (R + map_mx cj R^T))^T *m dmx D A)).
Proof.
move=> F cj cjK D Dcj n A Y e HA H1 H2 He Hr half Hh mask Hmr Hms Hd G ge Hge Hq /=.
exact: (@degen_symeig_backward_adjoint_conj F cj cjK D Dcj n A Y e HA H1 H2 He Hr half Hh mask Hmr Hms Hd G ge Hge Hq).
Qed.
Print Assumptions C06_dense_backward_adjoint_conjugate.

(* T9: the implicit path in the COMPLEX Hermitian case with COINCIDING kept eigenvalues (T6 and T7 together): k kept columns, partial
   spectrum, with M, the degeneracy map; X^H G Hermitian on the masked pairs; real-part pairing *)
From XV Require Import Proofs.SymeigConjDegen.
Theorem C06_eigpairs_backward_adjoint_degenerate_conjugate :
  forall (R : comRingType) (cj : {rmorphism R -> R}), involutive cj ->
  forall (D : derivation R), (forall a, D (cj a) = cj (D a)) ->
  forall n k (A M : 'M[R]_n) (x : 'I_k -> 'cV[R]_n) (e : 'I_k -> R),
  map_mx cj A^T = A -> map_mx cj M^T = M -> (forall i, cj (e i) = e i) ->
  (forall i, A *m x i = e i *: (M *m x i)) -> (forall i j, hdot cj (x i) (M *m x j) = (i == j)%:R) ->
  forall half : R, half + half = 1 ->
  forall mask : rel 'I_k, (forall i, mask i i) -> (forall i j, mask i j = mask j i) -> (forall i j, mask i j -> e i = e j) ->
  forall (g v : 'I_k -> 'cV[R]_n) (ge : 'I_k -> R), (forall i, cj (ge i) = ge i) ->
  (forall i j, mask i j -> hdot cj (x i) (g j) = cj (hdot cj (x j) (g i))) ->
  let c := fun j i : 'I_k => if mask j i then hdot cj (x j) (g i) else 0 in
  let b := fun i => g i - \sum_j c j i *: (M *m x j) in
  (forall i, A *m v i - e i *: (M *m v i) = - b i) ->
  let mv := fun j i : 'I_k => if mask j i then hdot cj (x j) (M *m v i) else 0 in
  let w := fun i => v i - \sum_j mv j i *: x j in
  let accA := fun i => ge i *: x i + w i in
  let accM := fun i => - (ge i * e i) *: x i - e i *: w i - half *: \sum_j c j i *: x j in
  Re cj half (\sum_i (hdot cj (g i) (dmx D (x i)) + ge i * D (e i))) =
  Re cj half (\sum_i (hdot cj (accA i) (dmx D A *m x i) + hdot cj (accM i) (dmx D M *m x i))).
Proof.
move=> R cj cjK D Dcj n k A M x e HA HM He Heig Ho half Hh mask Hr Hs Hd g v ge Hge Hq c b Hv mv w accA accM.
exact: (@eigpairs_backward_adjoint_degenerate_conj R cj cjK D Dcj n k A M x e HA HM He Heig Ho half Hh mask Hr Hs Hd g v ge Hge Hq Hv).
Qed.
Print Assumptions C06_eigpairs_backward_adjoint_degenerate_conjugate.

(* non-vacuity: a genuinely degenerate spectrum (A = 1, e = (1, 1)) with the full mask meets every hypothesis of T5 *)
Example C06_degenerate_hypotheses_satisfiable :
  let A : 'M[rat]_2 := 1%:M in let Y : 'M[rat]_2 := 1%:M in let e : 'rV[rat]_2 := \row_i 1 in
  let mask : rel 'I_2 := fun _ _ => true in let G : 'M[rat]_2 := 1%:M in
  [/\ A^T = A, Y^T *m Y = 1%:M, Y *m Y^T = 1%:M, A *m Y = Y *m diag_mx e & e 0 ord0 = e 0 (lift ord0 ord0)] /\
  [/\ (forall i, mask i i), (forall i j, mask i j = mask j i), (forall i j, ~~ mask i j -> e 0 i != e 0 j) &
      (forall i j, mask i j -> (Y^T *m G) i j = (Y^T *m G) j i)].
Proof.
have Hd : diag_mx (\row_(i < 2) (1 : rat)) = 1%:M.
  by apply/matrixP => i j; rewrite !mxE; case: (i == j).
cbv zeta; split.
- split; rewrite ?trmx1 ?mul1mx ?mulmx1 ?Hd //.
  by rewrite !mxE.
- split=> //.
  by move=> i j _; rewrite trmx1 mul1mx !mxE eq_sym.
Qed.

(* non-vacuity of T6: a fully degenerate pencil (A = M = 1, both kept eigenvalues 1, the full mask), cotangents g_i = x_i and the
   solution v_i = 0 of the (here identically zero) shifted systems meet every hypothesis *)
Lemma dot_delta (R : comRingType) n (i j : 'I_n) : dot (delta_mx i ord0 : 'cV[R]_n) (delta_mx j ord0) = (i == j)%:R.
Proof.
rewrite /dot trmx_delta mul_delta_mx_cond; case: (i == j); rewrite ?mulr1n ?mulr0n ?mxtrace0 //.
by rewrite /mxtrace big_ord1 mxE !eqxx.
Qed.

Example C06_implicit_degenerate_hypotheses_satisfiable :
  let A : 'M[rat]_2 := 1%:M in let M : 'M[rat]_2 := 1%:M in
  let x := fun i : 'I_2 => (delta_mx i ord0 : 'cV[rat]_2) in let e := fun _ : 'I_2 => (1 : rat) in
  let mask : rel 'I_2 := fun _ _ => true in let g := x in let v := fun _ : 'I_2 => (0 : 'cV[rat]_2) in
  [/\ A^T = A, M^T = M, (forall i, A *m x i = e i *: (M *m x i)) & (forall i j, dot (x i) (M *m x j) = (i == j)%:R)] /\
  [/\ (forall i j, mask i j -> e i = e j), (forall i j, mask i j -> dot (x i) (g j) = dot (x j) (g i)) &
      (forall i, A *m v i - e i *: (M *m v i) = - (g i - \sum_j (if mask j i then dot (x j) (g i) else 0) *: (M *m x j)))].
Proof.
cbv zeta; split; split=> //.
- by rewrite trmx1.
- by rewrite trmx1.
- by move=> i; rewrite !mul1mx scale1r.
- by move=> i j; rewrite mul1mx dot_delta.
- by move=> i j _; rewrite !dot_delta eq_sym.
- move=> i; rewrite !mulmx0 scaler0 subr0.
  rewrite (eq_bigr (fun j => (j == i)%:R *: delta_mx j ord0)); last by move=> j _; rewrite dot_delta mul1mx.
  rewrite (bigD1 i) //= eqxx scale1r big1 ?addr0 ?subrr ?oppr0 // => j Hj.
  by rewrite (negbTE Hj) scale0r.
Qed.

(* C13 — quad gradients in parameters and limits match the forward rule's accuracy. *)
From Coq Require Import String.
From mathcomp Require Import all_ssreflect all_algebra.
From XV Require Import Base.Ops Base.Deriv Model.ExplicitRK Model.Quad Proofs.QuadAlgebra Proofs.ExprDeriv
                       Model.Dispatch Proofs.DispatchProofs.
Import GRing.Theory Num.Theory.
Local Open Scope ring_scope.

(* T1: the nodes and weights of the rule do not depend on the parameters, so the derivative of the
   quadrature IS the same quadrature of the differentiated integrand; D is an arbitrary derivation,
   hence every differentiable parametrisation and, applied twice, second order *)
Theorem C13_rule_derivative_commutes : forall (F : numFieldType) n (D : derivation F) (ws fv : 'I_n -> F),
  (forall i, D (ws i) = 0) -> D (\sum_i ws i * fv i) = \sum_i ws i * D (fv i).
Proof. exact rule_derivative_commutes. Qed.
Print Assumptions C13_rule_derivative_commutes.

(* T2: tensors that do not influence the integrand receive zero (false before fixes F7 / F20:
   the implementation raised instead) *)
Theorem C13_unused_param_zero : forall (F : numFieldType) n (D : derivation F) (ws fv : 'I_n -> F),
  (forall i, D (ws i) = 0) -> (forall i, D (fv i) = 0) -> D (\sum_i ws i * fv i) = 0.
Proof. exact unused_param_zero. Qed.
Print Assumptions C13_unused_param_zero.

(* T3: the symbolic derivative used by the executable gradient model is the derivative: for any
   field, any derivation killing the integration variable, any environment *)
Theorem C13_dfexp_correct : forall (F : fieldType) (D : derivation F) (e : fexp) (t : F) (ys : seq F),
  D t = 0 ->
  D (feval (FieldOps F) e t ys) =
  \sum_(j < size ys) feval (FieldOps F) (dfexp j e) t ys * D (nth 0 ys j).
Proof. exact dfexp_correct. Qed.
Print Assumptions C13_dfexp_correct.

(* T4: the backward quadrature runs with the forward options updated by bck_options (false before
   fix F5: the options were swallowed): a key of bck_options wins, otherwise the forward value
   (including `method`) is used *)
Theorem C13_backward_uses_forward_options : forall bck fwd k,
  oget k (bck_config fwd bck) =
  match oget k (List.rev bck) with Some v => Some v | None => oget k fwd end.
Proof. move=> bck fwd k; exact: options_union_spec. Qed.
Print Assumptions C13_backward_uses_forward_options.

(* T5: the gradient w.r.t. the LIMITS.  The backward pass of quad returns the Leibniz formula f(xu) D xu - f(xl) D xl; for every
   integrand the forward rule integrates exactly (polynomials of degree <= d = 2n-1 with parameter-independent coefficients) this
   IS the derivative of the forward value, for limits in any order, every number of nodes and every derivation *)
Theorem C13_limits_gradient_is_leibniz : forall (F : numFieldType) n (x w : 'I_n -> F) (D : derivation F) d xl xu (p : {poly F}),
  moments_exact x w d -> (size p <= d.+1)%N -> (forall k, D p`_k = 0) ->
  D (Q x w xl xu (fun t => p.[t])) = p.[xu] * D xu - p.[xl] * D xl.
Proof. exact limits_gradient_leibniz. Qed.
Print Assumptions C13_limits_gradient_is_leibniz.

Example C13_nonvacuous_options :
  oget "n"%string (bck_config (("n"%string, 7%N) :: ("method"%string, 1%N) :: nil) nil) = Some 7%N /\
  oget "n"%string (bck_config (("n"%string, 7%N) :: nil) (("n"%string, 11%N) :: nil)) = Some 11%N.
Proof. by []. Qed.

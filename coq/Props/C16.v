(* C16 — mcquad returns the weighted sample mean it documents, with its gradient. *)
From mathcomp Require Import all_ssreflect all_algebra.
From Coq Require Import ZArith.
From XV Require Import Base.Ops Base.Deriv Model.Samplers Proofs.SamplersProofs Proofs.MCQuadAlgebra.
Import GRing.Theory.
Local Open Scope ring_scope.

(* sample counts and order *)
Theorem C16_mh_counts : forall T (o : ops T) logp x0 step nburnout nsamples noise logu,
  (nburnout + nsamples <= length noise)%coq_nat -> (nburnout + nsamples <= length logu)%coq_nat ->
  length (fst (mh o logp x0 step nburnout nsamples noise logu)) = nsamples /\
  length (snd (mh o logp x0 step nburnout nsamples noise logu)) = nsamples.
Proof. exact @mh_counts. Qed.
Print Assumptions C16_mh_counts.

Theorem C16_mh_step_rule : forall T (o : ops T) logp x lp step z lu,
  let xnext := oadd o x (omul o step z) in
  let ratio := osub o (logp xnext) lp in
  mh_chain o logp x lp step [:: z] [:: lu] =
  (if oltb o (o0 o) ratio || oltb o lu ratio then ([:: xnext], xnext) else ([:: x], x)).
Proof. exact @mh_step_rule. Qed.
Print Assumptions C16_mh_step_rule.

(* mhcustom: exactly nsamples samples, the chain continues from the burned-in state (false before F4) *)
Theorem C16_mhcustom_spec : forall T (o : ops T) (custom_step : T -> T) x0 nburnout nsamples,
  let '(xs, ws) := mhcustom o custom_step x0 nburnout nsamples in
  length xs = nsamples /\ length ws = nsamples /\
  forall i, (i < nsamples)%coq_nat -> List.nth i xs x0 = iter custom_step (Nat.pred nburnout + i)%coq_nat x0.
Proof. exact @mhcustom_spec. Qed.
Print Assumptions C16_mhcustom_spec.

(* weights sum to one, constants are reproduced, the mean is linear *)
Theorem C16_uniform_weights_sum_one : forall (F : fieldType) n,
  (n%:R : F) != 0 -> \sum_(i < n) (n%:R : F)^-1 = 1.
Proof. exact uniform_weights_sum_one. Qed.
Print Assumptions C16_uniform_weights_sum_one.

Theorem C16_normalised_weights_sum_one : forall (F : fieldType) n (c : 'I_n -> F),
  \sum_i c i != 0 -> \sum_i (c i / \sum_j c j) = 1.
Proof. exact normalised_weights_sum_one. Qed.
Print Assumptions C16_normalised_weights_sum_one.

Theorem C16_mean_of_constant : forall (F : fieldType) n (w : 'I_n -> F) k,
  \sum_i w i = 1 -> wmean w (fun _ => k) = k.
Proof. exact mean_of_constant. Qed.
Print Assumptions C16_mean_of_constant.

Theorem C16_mean_linear : forall (F : fieldType) n (w f g : 'I_n -> F) a b,
  wmean w (fun i => a * f i + b * g i) = a * wmean w f + b * wmean w g.
Proof. exact mean_linear. Qed.
Print Assumptions C16_mean_linear.

(* gradients: any derivation D (any differentiable parametrisation, any order) *)
Theorem C16_grad_f_params : forall (F : fieldType) n (D : derivation F) (w f : 'I_n -> F),
  (forall i, D (w i) = 0) -> D (wmean w f) = wmean w (fun i => D (f i)).
Proof. exact grad_f_params. Qed.
Print Assumptions C16_grad_f_params.

Theorem C16_score_function_identity : forall (F : fieldType) n (D : derivation F) (c p l f : 'I_n -> F),
  let S := \sum_j c j * p j in
  let W := fun i => c i * p i / S in
  let E := wmean W f in
  S != 0 -> (forall i, D (c i) = 0) -> (forall i, D (p i) = p i * l i) ->
  D E = wmean W (fun i => D (f i)) + wmean W (fun i => (f i - E) * l i).
Proof. exact score_function_identity. Qed.
Print Assumptions C16_score_function_identity.

Theorem C16_unused_param_zero : forall (F : fieldType) n (D : derivation F) (c p f : 'I_n -> F),
  let S := \sum_j c j * p j in
  S != 0 -> (forall i, D (c i) = 0) -> (forall i, D (p i) = 0) -> (forall i, D (f i) = 0) ->
  D (wmean (fun i => c i * p i / S) f) = 0.
Proof. exact unused_param_zero. Qed.
Print Assumptions C16_unused_param_zero.

(* C18 — method names are matched case-insensitively, unknown names are rejected, callables
   are passed through with the caller's options; all statements are over the tables that
   were regenerated from /repo into Gen/MethodTables.v for this run. *)
From Coq Require Import String List Bool Arith.
Import ListNotations.
From XV Require Import Model.Dispatch Proofs.DispatchProofs Gen.MethodTables.
Open Scope string_scope.

(* the ten functionals, instantiated with the generated tables *)
Definition D_solve := dispatch_solve tbl_solve.
Definition D_symeig := dispatch_symeig tbl_symeig.
Definition D_rootfinder := dispatch_rootfinder tbl_alg_rootfinder default_rootfinder.
Definition D_equilibrium := dispatch_equilibrium tbl_alg_rootfinder tbl_alg_equilibrium tbl_pre_equil default_equilibrium.
Definition D_minimize := dispatch_minimize tbl_alg_rootfinder tbl_alg_minimizer tbl_pre_rf default_minimize.
Definition D_ivp := dispatch_ivp tbl_solve_ivp default_solve_ivp.
Definition D_quad := dispatch_quad tbl_quad default_quad.
Definition D_mcquad := dispatch_mcquad tbl_mcquad default_mcquad.
Definition D_interp := dispatch_interp tbl_interp1d default_interp1d.
Definition D_squad := dispatch_squad tbl_squad default_squad.

Theorem C18_get_method_case_insensitive : forall fam t s,
  get_method fam t (MStr s) = get_method fam t (MStr (lower s)).
Proof. exact get_method_case_insensitive. Qed.
Print Assumptions C18_get_method_case_insensitive.

Theorem C18_dispatch_case_insensitive : forall dflt s,
  D_solve dflt (MStr s) = D_solve dflt (MStr (lower s)) /\
  D_symeig (MStr s) = D_symeig (MStr (lower s)) /\
  D_rootfinder (MStr s) = D_rootfinder (MStr (lower s)) /\
  D_equilibrium (MStr s) = D_equilibrium (MStr (lower s)) /\
  D_minimize (MStr s) = D_minimize (MStr (lower s)) /\
  D_ivp (MStr s) = D_ivp (MStr (lower s)) /\
  D_quad (MStr s) = D_quad (MStr (lower s)) /\
  D_mcquad (MStr s) = D_mcquad (MStr (lower s)) /\
  D_interp (MStr s) = D_interp (MStr (lower s)) /\
  D_squad (MStr s) = D_squad (MStr (lower s)).
Proof.
  intros dflt s.
  split; [apply ci_solve|]. split; [apply ci_symeig|]. split; [apply ci_rootfinder|].
  split; [apply ci_equilibrium|]. split; [apply ci_minimize|].
  repeat split; apply ci_table_only.
Qed.
Print Assumptions C18_dispatch_case_insensitive.

(* unknown names: never a silent default *)
Definition names (t : table) : list string := map fst t.
Definition notin (s : string) (l : list string) : Prop := ~ In s l.

Lemma tlookup_None k t : ~ In k (names t) -> tlookup k t = None.
Proof.
  induction t as [|[k' v] r IH]; cbn; [reflexivity|]. intros H.
  destruct (String.eqb_spec k k') as [->|Hn]; [tauto|apply IH; tauto].
Qed.

Theorem C18_unknown_rejected : forall dflt s,
  let k := lower s in
  (k <> "exactsolve" -> notin k (names tbl_solve) -> D_solve dflt (MStr s) = ErrUnknown) /\
  (k <> "exacteig" -> notin k (names tbl_symeig) -> D_symeig (MStr s) = ErrUnknown) /\
  (notin k (names tbl_alg_rootfinder) -> D_rootfinder (MStr s) = ErrUnknown) /\
  (notin k (names tbl_alg_rootfinder) -> notin k (names tbl_alg_equilibrium) -> D_equilibrium (MStr s) = ErrUnknown) /\
  (notin k (names tbl_alg_rootfinder) -> notin k (names tbl_alg_minimizer) -> D_minimize (MStr s) = ErrUnknown) /\
  (notin k (names tbl_solve_ivp) -> D_ivp (MStr s) = ErrUnknown) /\
  (notin k (names tbl_quad) -> D_quad (MStr s) = ErrUnknown) /\
  (notin k (names tbl_mcquad) -> D_mcquad (MStr s) = ErrUnknown) /\
  (notin k (names tbl_interp1d) -> D_interp (MStr s) = ErrUnknown) /\
  (notin k (names tbl_squad) -> D_squad (MStr s) = ErrUnknown).
Proof.
  intros dflt s k. unfold notin.
  split; [intros H1 H2; apply unknown_solve; [exact H1|apply tlookup_None; exact H2]|].
  split; [intros H1 H2; apply unknown_symeig; [exact H1|apply tlookup_None; exact H2]|].
  split; [intros H; apply get_method_unknown, tlookup_None; exact H|].
  split; [intros H1 H2; apply unknown_equilibrium; apply tlookup_None; assumption|].
  split; [intros H1 H2; apply unknown_minimize; apply tlookup_None; assumption|].
  repeat split; intros H; apply get_method_unknown, tlookup_None; exact H.
Qed.
Print Assumptions C18_unknown_rejected.

Theorem C18_callable_passthrough : forall dflt i,
  D_solve dflt (MCall i) = Custom "solve" i /\ D_symeig (MCall i) = Custom "symeig" i /\
  D_rootfinder (MCall i) = Custom "rootfinder" i /\ D_equilibrium (MCall i) = Custom "rootfinder" i /\
  D_minimize (MCall i) = Custom "minimizer" i /\ D_ivp (MCall i) = Custom "solve_ivp" i /\
  D_quad (MCall i) = Custom "quad" i /\ D_mcquad (MCall i) = Custom "mcquad" i /\
  D_interp (MCall i) = Custom "Interp1D" i /\ D_squad (MCall i) = Custom "SQuad" i.
Proof. intros dflt i. apply callable_all. Qed.
Print Assumptions C18_callable_passthrough.

(* facts about the tables the code holds TODAY (re-checked on every run by computation):
   keys are lower-case and pairwise distinct, so every built-in is reachable by its name;
   every documented name and every default dispatches to an implementation *)
Definition is_lower (s : string) : bool := String.eqb (lower s) s.
Fixpoint nodupb (l : list string) : bool :=
  match l with [] => true | x :: r => negb (existsb (String.eqb x) r) && nodupb r end.
Definition runs (o : outcome) : bool :=
  match o with Direct _ | Ran _ _ => true | _ => false end.
Definition all_tables : list table :=
  [tbl_solve; tbl_symeig; tbl_alg_rootfinder; tbl_alg_equilibrium; tbl_alg_minimizer;
   tbl_solve_ivp; tbl_quad; tbl_mcquad; tbl_interp1d; tbl_squad].

Theorem C18_tables_wellformed :
  forallb (fun t => forallb is_lower (names t) && nodupb (names t)) all_tables = true /\
  (* the tables consulted before dispatch are the ones dispatched on *)
  names tbl_pre_equil = names tbl_alg_equilibrium /\ names tbl_pre_rf = names tbl_alg_rootfinder /\
  (* every key runs its own entry *)
  forallb (fun kv => outcome_eqb (D_ivp (MStr (fst kv))) (Ran "solve_ivp" (snd kv))) tbl_solve_ivp = true /\
  forallb (fun kv => outcome_eqb (D_solve "cg" (MStr (fst kv))) (Ran "solve" (snd kv))) tbl_solve = true /\
  forallb (fun kv => outcome_eqb (D_symeig (MStr (fst kv))) (Ran "symeig" (snd kv))) tbl_symeig = true /\
  forallb (fun kv => outcome_eqb (D_rootfinder (MStr (fst kv))) (Ran "rootfinder" (snd kv))) tbl_alg_rootfinder = true /\
  forallb (fun kv => outcome_eqb (D_equilibrium (MStr (fst kv))) (Ran "rootfinder" (snd kv))) tbl_alg_rootfinder = true /\
  forallb (fun kv => outcome_eqb (D_equilibrium (MStr (fst kv))) (Ran "equilibrium" (snd kv))) tbl_alg_equilibrium = true /\
  forallb (fun kv => outcome_eqb (D_minimize (MStr (fst kv))) (Ran "rootfinder" (snd kv))) tbl_alg_rootfinder = true /\
  forallb (fun kv => outcome_eqb (D_minimize (MStr (fst kv))) (Ran "minimizer" (snd kv))) tbl_alg_minimizer = true /\
  forallb (fun kv => outcome_eqb (D_quad (MStr (fst kv))) (Ran "quad" (snd kv))) tbl_quad = true /\
  forallb (fun kv => outcome_eqb (D_mcquad (MStr (fst kv))) (Ran "mcquad" (snd kv))) tbl_mcquad = true /\
  forallb (fun kv => outcome_eqb (D_interp (MStr (fst kv))) (Ran "Interp1D" (snd kv))) tbl_interp1d = true /\
  forallb (fun kv => outcome_eqb (D_squad (MStr (fst kv))) (Ran "SQuad" (snd kv))) tbl_squad = true.
Proof. vm_compute. repeat split; reflexivity. Qed.
Print Assumptions C18_tables_wellformed.

Theorem C18_documented_and_default_names_run :
  forallb (fun n => runs (D_solve "cg" (MStr n))) doc_solve = true /\
  forallb (fun n => runs (D_symeig (MStr n))) doc_symeig = true /\
  forallb (fun n => runs (D_ivp (MStr n))) doc_solve_ivp = true /\
  forallb (fun n => runs (D_interp (MStr n))) doc_interp1d = true /\
  forallb (fun n => runs (D_squad (MStr n))) doc_squad = true /\
  forallb runs [D_solve "exactsolve" MNone; D_solve "cg" MNone; D_solve "bicgstab" MNone;
                D_symeig MNone; D_rootfinder MNone; D_equilibrium MNone; D_minimize MNone;
                D_ivp MNone; D_quad MNone; D_mcquad MNone; D_interp MNone; D_squad MNone] = true.
Proof. vm_compute. repeat split; reflexivity. Qed.
Print Assumptions C18_documented_and_default_names_run.

(* options *)
Theorem C18_custom_receives_options : forall fwd k,
  oget k (fwd_kwargs fwd) = if String.eqb k "method" then None else oget k fwd.
Proof. exact custom_receives_options. Qed.
Print Assumptions C18_custom_receives_options.

Theorem C18_options_union_spec : forall opt defopt k,
  oget k (set_default_option defopt opt) =
  match oget k (rev opt) with Some v => Some v | None => oget k defopt end.
Proof. exact options_union_spec. Qed.
Print Assumptions C18_options_union_spec.

(* non-vacuity: mixed-case names do reach implementations, unknown ones do not *)
Example C18_nonvacuous :
  D_solve "cg" (MStr "ExactSolve") = Direct "exactsolve" /\
  D_equilibrium (MStr "Anderson_Acc") = Ran "equilibrium" "anderson_acc" /\
  D_minimize (MStr "Broyden1") = Ran "rootfinder" "broyden1" /\
  D_minimize (MStr "ADAM") = Ran "minimizer" "adam" /\
  D_ivp (MStr "rk5") = ErrUnknown /\ D_quad MOther = ErrType.
Proof. vm_compute. repeat split; reflexivity. Qed.

(* ---- xitorch/_utils/misc.py as translated from /repo on this run (Gen/PyMisc.v) ---- *)
From Coq Require Import ZArith.
From XV Require Import Base.PyLib Proofs.PyMiscProofs.
From XV Require Gen.PyMisc.

(* the translated get_method refines the dispatch model on which the theorems above are stated *)
Theorem C18_translated_get_method_is_model : forall alg fam t m,
  PyMisc.get_method alg (tbl_obj t) (meth_obj m) = outcome_res (Dispatch.get_method fam t m).
Proof. exact get_method_refines. Qed.
Print Assumptions C18_translated_get_method_is_model.

(* ... and directly: a returned value is the table entry of the lower-cased name or the caller's callable itself *)
Theorem C18_translated_get_method_never_silent_default : forall alg tbl m r,
  PyMisc.get_method alg tbl m = Ok r ->
  (exists s, m = OStr s /\ d_find String.eqb tbl (str_lower s) = Some r) \/ (exists i, m = OCall i /\ r = m).
Proof. exact gen_get_method_never_silent_default. Qed.
Print Assumptions C18_translated_get_method_never_silent_default.

Theorem C18_translated_set_default_option_is_model : forall f defopt opt,
  PyMisc.set_default_option (vals_obj f defopt) (vals_obj f opt) =
  Ok (vals_obj f (Dispatch.set_default_option defopt opt)).
Proof. exact set_default_option_refines. Qed.
Print Assumptions C18_translated_set_default_option_is_model.

(* get_and_pop_keys hands over exactly the requested entries AND removes them from the dictionary that is forwarded to
   the solver (the backward-options contract); a missing key raises *)
Theorem C18_translated_get_and_pop_keys : forall dct keys res1 dct1,
  NoDup (map fst dct) -> NoDup keys ->
  PyMisc.get_and_pop_keys dct keys = Ok (res1, dct1) ->
  (forall k, In k keys -> d_find String.eqb res1 k = d_find String.eqb dct k /\ d_find String.eqb dct k <> None /\
                          d_find String.eqb dct1 k = None) /\
  (forall k, ~ In k keys -> d_find String.eqb res1 k = None /\ d_find String.eqb dct1 k = d_find String.eqb dct k).
Proof. exact gen_get_and_pop_keys_spec. Qed.
Print Assumptions C18_translated_get_and_pop_keys.

(* ---- the code in front of the dispatch in solve() and symeig() as translated from /repo on this run (Gen/PyDispatch*.v):
   default names and lower-casing are those of dispatch_solve / dispatch_symeig above ---- *)
From XV Require Import Proofs.PyDispatchProofs.
From XV Require Gen.PyDispatch Gen.PyDispatchEig.

Theorem C18_translated_solve_prelude_is_model : forall ad md (n : nat) ah mh m,
  PyDispatch.solve_method_prelude ad md (Z.of_nat n) ah mh (meth_obj m) =
  Ok (meth_obj (lower_meth (with_default (solve_default ad md n (ah && mh)) m))).
Proof. exact solve_method_prelude_refines. Qed.
Print Assumptions C18_translated_solve_prelude_is_model.

Theorem C18_translated_symeig_prelude_is_model : forall ad md n ah mh m,
  PyDispatchEig.symeig_method_prelude ad md n ah mh (meth_obj m) = Ok (meth_obj (lower_meth (with_default "exacteig" m))).
Proof. exact symeig_method_prelude_refines. Qed.
Print Assumptions C18_translated_symeig_prelude_is_model.

From XV Require Gen.PyDispatchRF.
Theorem C18_translated_equilibrium_prelude_is_model : forall t m pf nf,
  let m' := lower_meth (with_default "broyden1" m) in
  PyDispatchRF.equilibrium_method_prelude (meth_obj m) pf nf (tbl_obj t) =
  Ok (meth_obj m', if in_table m' t then "equilibrium" else "rootfinder", if in_table m' t then pf else nf).
Proof. exact equilibrium_method_prelude_refines. Qed.
Print Assumptions C18_translated_equilibrium_prelude_is_model.

Theorem C18_translated_minimize_prelude_is_model : forall t fo m,
  let m' := lower_meth (with_default "broyden1" m) in
  PyDispatchRF.minimize_method_prelude (meth_obj m) fo (tbl_obj t) = Ok (meth_obj m', negb (in_table m' t)).
Proof. exact minimize_method_prelude_refines. Qed.
Print Assumptions C18_translated_minimize_prelude_is_model.

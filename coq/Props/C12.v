(* C12 — quad applies an exact n-point Gauss-Legendre rule on the requested interval. *)
From mathcomp Require Import all_ssreflect all_algebra.
From mathcomp Require Import ring.
From XV Require Import Base.Deriv Proofs.QuadAlgebra.
Import GRing.Theory Num.Theory.
Local Open Scope ring_scope.

(* T1: exactness is preserved by the affine map of the code: a reference rule with exact moments
   up to degree d (d = 2n-1 for Gauss-Legendre) integrates t^k, k <= d, exactly on [xl, xu],
   for every xl, xu in any order and every number of nodes *)
Theorem C12_mapped_rule_exact : forall (F : numFieldType) n (x w : 'I_n -> F) d xl xu k,
  moments_exact x w d -> (k <= d)%N ->
  Q x w xl xu (fun t => t ^+ k) = (xu ^+ k.+1 - xl ^+ k.+1) / k.+1%:R.
Proof. exact mapped_rule_exact. Qed.
Print Assumptions C12_mapped_rule_exact.

Theorem C12_quad_linear : forall (F : numFieldType) n (x w : 'I_n -> F) xl xu f g a b,
  Q x w xl xu (fun t => a * f t + b * g t) = a * Q x w xl xu f + b * Q x w xl xu g.
Proof. exact quad_linear. Qed.
Print Assumptions C12_quad_linear.

Theorem C12_quad_swap : forall (F : numFieldType) n (x w : 'I_n -> F) xl xu f,
  (forall i, x (rev_ord i) = - x i) -> (forall i, w (rev_ord i) = w i) ->
  Q x w xu xl f = - Q x w xl xu f.
Proof. exact quad_swap. Qed.
Print Assumptions C12_quad_swap.

Theorem C12_quad_additive : forall (F : numFieldType) n (x w : 'I_n -> F) d a b c k,
  moments_exact x w d -> (k <= d)%N ->
  Q x w a b (fun t => t ^+ k) + Q x w b c (fun t => t ^+ k) = Q x w a c (fun t => t ^+ k).
Proof. exact quad_additive. Qed.
Print Assumptions C12_quad_additive.

(* T1': hence EVERY polynomial of degree <= d, not just monomials: the rule returns the difference of the antiderivative
   sum_k p_k t^(k+1)/(k+1) at the two limits, for limits in any order *)
Theorem C12_mapped_rule_exact_every_polynomial : forall (F : numFieldType) n (x w : 'I_n -> F) d xl xu (p : {poly F}),
  moments_exact x w d -> (size p <= d.+1)%N ->
  Q x w xl xu (fun t => p.[t]) = \sum_(k < size p) p`_k * ((xu ^+ k.+1 - xl ^+ k.+1) / k.+1%:R).
Proof. exact mapped_rule_exact_poly. Qed.
Print Assumptions C12_mapped_rule_exact_every_polynomial.

(* additivity over adjacent intervals, for every polynomial the rule integrates exactly and limits in any order *)
Theorem C12_quad_additive_every_polynomial : forall (F : numFieldType) n (x w : 'I_n -> F) d a b c (p : {poly F}),
  moments_exact x w d -> (size p <= d.+1)%N ->
  Q x w a b (fun t => p.[t]) + Q x w b c (fun t => p.[t]) = Q x w a c (fun t => p.[t]).
Proof. exact quad_additive_poly. Qed.
Print Assumptions C12_quad_additive_every_polynomial.

(* the rule depends on the integrand through its values only, and is linear over finite sums *)
Theorem C12_quad_finite_sums : forall (F : numFieldType) n (x w : 'I_n -> F) xl xu m (c : 'I_m -> F) (f : 'I_m -> F -> F),
  Q x w xl xu (fun t => \sum_k c k * f k t) = \sum_k c k * Q x w xl xu (f k).
Proof. exact quad_sum. Qed.
Print Assumptions C12_quad_finite_sums.

(* non-vacuity: the 1-point rule (x = 0, w = 2) satisfies the moment hypothesis up to degree 1 = 2n-1;
   for larger n the hypothesis about numpy's table is checked numerically (exact rational arithmetic on
   the float nodes) by the harness and reported as a test of the oracle, not as a theorem *)
Example C12_gl1_moments (F : numFieldType) :
  moments_exact (fun _ : 'I_1 => 0 : F) (fun _ => 2%:R) 1.
Proof. by move=> [|[|j]] // _; rewrite big_ord1 /=; field. Qed.


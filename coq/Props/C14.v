(* C14 — Interp1D evaluates the declared interpolant of the samples. *)
From Coq Require Import ZArith Sorted.
From mathcomp Require Import all_ssreflect all_algebra.
From XV Require Import Base.Ops Model.Interp Proofs.InterpAlgebra Proofs.InterpSearch Proofs.SQuadAlgebra.
Import GRing.Theory Num.Theory.
Local Open Scope ring_scope.

(* the two evaluation formulas of each method (few / many queries) are the same function *)
Theorem C14_linear_formulas_agree : forall (F : realFieldType) (xl xr yl yr q : F),
  lin_many xl xr yl yr q = lin_few xl xr yl yr q.
Proof. exact linear_formulas_agree. Qed.
Print Assumptions C14_linear_formulas_agree.

Theorem C14_cubic_formulas_agree : forall (F : realFieldType) (xl xr yl yr kl kr q : F), xr != xl ->
  cub_many xl xr yl yr kl kr q = cub_few xl xr yl yr kl kr q.
Proof. exact cubic_formulas_agree. Qed.
Print Assumptions C14_cubic_formulas_agree.

(* sample values at sample positions *)
Theorem C14_linear_at_knots : forall (F : realFieldType) (xl xr yl yr : F), xr != xl ->
  lin_few xl xr yl yr xl = yl /\ lin_few xl xr yl yr xr = yr.
Proof. exact linear_at_knots. Qed.
Print Assumptions C14_linear_at_knots.

Theorem C14_cubic_at_knots : forall (F : realFieldType) (xl xr yl yr kl kr : F), xr != xl ->
  cub_few xl xr yl yr kl kr xl = yl /\ cub_few xl xr yl yr kl kr xr = yr.
Proof. exact cubic_at_knots. Qed.
Print Assumptions C14_cubic_at_knots.

(* C1: the slopes of every cubic piece at its two knots are the spline's k values *)
Theorem C14_hermite_slopes : forall (F : realFieldType) (xl xr yl yr kl kr : F), xr != xl ->
  d1 (cub_coefs xl xr yl yr kl kr) 0 = kl /\ d1 (cub_coefs xl xr yl yr kl kr) (xr - xl) = kr.
Proof. exact hermite_slopes. Qed.
Print Assumptions C14_hermite_slopes.

(* C2: an interior row of the code's linear system holds iff the second derivatives of the two
   adjacent pieces agree at the shared knot *)
Theorem C14_interior_row_C2 : forall (F : realFieldType) (x0 x1 x2 y0 y1 y2 k0 k1 k2 : F),
  x1 != x0 -> x2 != x1 ->
  interior_row x0 x1 x2 y0 y1 y2 k0 k1 k2 = 0 <->
  d2 (cub_coefs x0 x1 y0 y1 k0 k1) (x1 - x0) = d2 (cub_coefs x1 x2 y1 y2 k1 k2) 0.
Proof. exact interior_row_C2. Qed.
Print Assumptions C14_interior_row_C2.

(* boundary rows: natural (S'' = 0 at both ends), not-a-knot (S''' continuous at the second knot),
   periodic (S'' equal at the two ends when y is periodic) *)
Theorem C14_natural_rows : forall (F : realFieldType) (x0 x1 x2 y0 y1 y2 k0 k1 k2 : F), x1 != x0 -> x2 != x1 ->
  d2 (cub_coefs x0 x1 y0 y1 k0 k1) 0 = - 2%:R * natural_row_first x0 x1 y0 y1 k0 k1 /\
  d2 (cub_coefs x1 x2 y1 y2 k1 k2) (x2 - x1) = 2%:R * natural_row_last x1 x2 y1 y2 k1 k2.
Proof. by move=> F x0 x1 x2 y0 y1 y2 k0 k1 k2 h0 h1; split; [apply: natural_first_row|apply: natural_last_row]. Qed.
Print Assumptions C14_natural_rows.

Theorem C14_notaknot_row : forall (F : realFieldType) (x0 x1 x2 y0 y1 y2 k0 k1 k2 : F), x1 != x0 -> x2 != x1 ->
  d3 (cub_coefs x0 x1 y0 y1 k0 k1) - d3 (cub_coefs x1 x2 y1 y2 k1 k2) =
  6%:R * notaknot_row_first x0 x1 x2 y0 y1 y2 k0 k1 k2.
Proof. exact notaknot_first_row. Qed.
Print Assumptions C14_notaknot_row.

Theorem C14_periodic_row : forall (F : realFieldType) (x0 x1 xm xn y0 y1 ym yn k0 k1 km : F),
  x1 != x0 -> xn != xm -> yn = y0 ->
  let i0 := (x1 - x0)^-1 in let il := (xn - xm)^-1 in
  let row := (((0 + i0) * 2%:R + il * 2%:R) * k0 + i0 * k1 + il * km)
             - (((0 - i0 * i0 * 3%:R) + 3%:R * il * il) * y0 + i0 * i0 * 3%:R * y1 + (- (3%:R * il * il)) * ym) in
  d2 (cub_coefs x0 x1 y0 y1 k0 k1) 0 - d2 (cub_coefs xm xn ym yn km k0) (xn - xm) = - 2%:R * row.
Proof. exact periodic_first_row. Qed.
Print Assumptions C14_periodic_row.

(* the bracket search returns an interval of the sorted grid that contains the query *)
Theorem C14_search_bracket : forall (x : list Z) (q : Z), Sorted Z.le x -> (2 <= length x)%coq_nat ->
  (Z.le (List.nth 0 x Z0) q /\ Z.le q (List.nth (Nat.pred (length x)) x Z0)) ->
  let ir := idx_right Zops x q in let il := Nat.pred ir in
  ir = S il /\ (ir < length x)%coq_nat /\ (Z.le (List.nth il x Z0) q /\ Z.le q (List.nth ir x Z0)).
Proof. exact search_bracket. Qed.
Print Assumptions C14_search_bracket.

(* extrapolation position maps land inside the sample range with the documented symmetry *)
Theorem C14_extrap_positions : forall (F : realFieldType) (v k : F), k <= v < k + 1 ->
  (0 <= v - k < 1) /\
  (let r := (2%:R * (k / 2%:R) - v) * (-1) in r = v - k /\ 0 <= r < 1) /\
  (let r := (2%:R * ((k + 1) / 2%:R) - v) * 1 in r = k + 1 - v /\ 0 < r <= 1) /\
  (0 <= (if v < 0 then 0 else if 1 < v then 1 else v) <= 1).
Proof.
move=> F v k H; split; first exact: periodic_pos.
split; first exact: mirror_pos_even.
split; first exact: mirror_pos_odd.
exact: bound_pos.
Qed.
Print Assumptions C14_extrap_positions.

(* ---- the code of xitorch/_utils/bcast.py as translated from /repo on this run (Gen/PyBcast.v): for two or more
   shapes get_bcasted_dims IS the broadcast shape of Base/Shapes.v; with no shape it raises.  Statement:
   Proofs/PyBcastProofs.v, translated_bcast_statement. ---- *)
From XV Require Proofs.PyBcastProofs.
Theorem C14_translated_bcast_is_model : PyBcastProofs.translated_bcast_statement.
Proof. exact PyBcastProofs.translated_bcast. Qed.
Print Assumptions C14_translated_bcast_is_model.

(* C20 — Packer round-trips any nested structure, preserving aliasing and its input.
   Only statements + `exact lemma` + Print Assumptions live here. *)
From Coq Require Import List Arith ZArith Bool Sorted Lia.
Import ListNotations.
From XV Require Import Model.Packer Proofs.PackerProofs.

(* T1: rebuilding puts the i-th supplied tensor at position i, consumes the list exactly,
   and leaves containers / keys / order / non-tensor content as they were. *)
Theorem C20_extract_put : forall b ts, length ts = length (extract b) ->
  extract (fst (put b ts)) = ts /\ snd (put b ts) = [] /\ skel (fst (put b ts)) = skel b.
Proof. exact extract_put. Qed.
Print Assumptions C20_extract_put.

(* T2: the unique index list is increasing (stable first-occurrence order), selects each
   distinct identity exactly once, and the inverse map points every position at its class. *)
Theorem C20_unique_spec : forall b : list tens,
  let '(ui, inv) := get_unique_idxs b in
  let U := map (fun j => nth j (ids_of b) 0) ui in
  StronglySorted lt ui /\ (forall j, In j ui -> j < length b) /\ NoDup U /\
  length inv = length b /\
  (forall k, k < length b -> nth (nth k inv 0) U 0 = nth k (ids_of b) 0 /\ nth k inv 0 < length ui) /\
  (forall x, In x U <-> In x (ids_of b)).
Proof. exact unique_spec. Qed.
Print Assumptions C20_unique_spec.

(* T3: unique mode preserves aliasing: position i receives us[uinv[i]]. *)
Theorem C20_construct_unique_aliasing : forall obj gn tu tn us,
  length us = length (uts obj) -> extract obj <> [] ->
  map tshape us = map tshape (uts obj) ->
  exists o', from_list (state_of obj true gn tu tn) us true = RObj o' /\
             extract o' = select dummyT us (snd (get_unique_idxs (extract obj))) /\
             skel o' = skel obj.
Proof. exact construct_unique_aliasing. Qed.
Print Assumptions C20_construct_unique_aliasing.

Theorem C20_construct_list_positions : forall obj gu tu tn ts,
  length ts = length (extract obj) -> extract obj <> [] ->
  map tshape ts = map tshape (extract obj) ->
  exists o', from_list (state_of obj gu true tu tn) ts false = RObj o' /\
             extract o' = ts /\ skel o' = skel obj.
Proof. exact construct_list_positions. Qed.
Print Assumptions C20_construct_list_positions.

(* T4: round trips *)
Theorem C20_roundtrip_nonunique : forall obj gu tu tn,
  from_list (state_of obj gu true tu tn) (extract obj) false = RObj obj.
Proof. exact construct_roundtrip_nonunique. Qed.
Print Assumptions C20_roundtrip_nonunique.

Theorem C20_roundtrip_unique : forall obj gn tu tn, ids_consistent (extract obj) ->
  from_list (state_of obj true gn tu tn) (uts obj) true = RObj obj.
Proof. exact construct_roundtrip_unique. Qed.
Print Assumptions C20_roundtrip_unique.

Theorem C20_flat_roundtrip : forall ts : list tens,
  Forall (fun t => length (tdata t) = numel (tshape t)) ts ->
  map (fun t => (tshape t, tdata t)) (split_flat 0 (flat_map tdata ts) (nm ts) (map tshape ts))
  = map (fun t => (tshape t, tdata t)) ts.
Proof. exact flat_roundtrip. Qed.
Print Assumptions C20_flat_roundtrip.

(* T5: purity and order-independence of the Packer state: after ANY sequence of operations
   the state is a function of the structure and of which get_* calls have occurred. *)
Theorem C20_call_order_spec : forall obj ops f,
  final (state_of_flags obj f) ops = state_of_flags obj (flags_run obj ops f).
Proof. exact call_order_spec. Qed.
Print Assumptions C20_call_order_spec.

Theorem C20_packer_pure : forall obj ops,
  p_obj (final (packer_init obj) ops) = obj /\
  p_tensors (final (packer_init obj) ops) = extract obj.
Proof. exact packer_pure. Qed.
Print Assumptions C20_packer_pure.

(* T6: rejections *)
Theorem C20_rejects_wrong_length : forall p ts (u : bool) shapes,
  (if u then p_ushapes p else p_shapes p) = Some shapes ->
  length ts <> length shapes -> from_list p ts u = RErr ErrRuntime.
Proof. exact rejects_wrong_length. Qed.
Print Assumptions C20_rejects_wrong_length.

Theorem C20_rejects_wrong_shape : forall p ts (u : bool) shapes i,
  (if u then p_ushapes p else p_shapes p) = Some shapes ->
  length ts = length shapes -> i < length ts ->
  tshape (nth i ts dummyT) <> nth i shapes [] -> from_list p ts u = RErr ErrRuntime.
Proof. exact rejects_wrong_shape. Qed.
Print Assumptions C20_rejects_wrong_shape.

Theorem C20_rejects_wrong_numel : forall p a (u : bool) shapes numels,
  (if u then p_ushapes p else p_shapes p) = Some shapes -> shapes <> [] ->
  (if u then p_unumels p else p_numels p) = Some numels ->
  numel (tshape a) <> fold_right Nat.add 0 numels -> from_tensor p a u = RErr ErrRuntime.
Proof. exact rejects_wrong_numel. Qed.
Print Assumptions C20_rejects_wrong_numel.

Theorem C20_rejects_before_get : forall p ts a (u : bool),
  (if u then p_ushapes p else p_shapes p) = None ->
  from_list p ts u = RErr ErrRuntime /\ from_tensor p a u = RErr ErrRuntime.
Proof. exact rejects_before_get. Qed.
Print Assumptions C20_rejects_before_get.

(* Non-vacuity: a concrete aliased structure {a: t0, b: [t1, t0], c: (t2,), d: 5} *)
Definition ex_t0 := mkT 0 [2] [1; 2]%Z.
Definition ex_t1 := mkT 1 [1; 2] [3; 4]%Z.
Definition ex_obj := NDict [(0, NTens ex_t0); (1, NList [NTens ex_t1; NTens ex_t0]);
                            (2, NTup [NTens (mkT 2 [] [9]%Z)]); (3, NLeaf 5)].
Example C20_nonvacuous :
  ids_consistent (extract ex_obj) /\ extract ex_obj <> [] /\
  get_unique_idxs (extract ex_obj) = ([0; 1], [0; 1; 0]) /\
  run (packer_init ex_obj) [OGetTensor true; OFromTensor (mkT 7 [4] [5; 6; 7; 8]%Z) true]
  = [RTensor (mkT 1000 [4] [1; 2; 3; 4]%Z);
     RObj (NDict [(0, NTens (mkT 1000 [2] [5; 6]%Z));
                  (1, NList [NTens (mkT 1001 [1; 2] [7; 8]%Z); NTens (mkT 1000 [2] [5; 6]%Z)]);
                  (2, NTup [NTens (mkT 2 [] [9]%Z)]); (3, NLeaf 5)])].
Proof.
  split; [|split; [discriminate|split; reflexivity]].
  intros i j Hi Hj. cbn in Hi, Hj.
  destruct i as [|[|[|i]]]; destruct j as [|[|[|j]]]; cbn; try lia; intros E; try discriminate; reflexivity.
Qed.

(* ---- xitorch/_core/packer.py:_get_unique_idxs as translated from /repo on this run (Gen/PyPackerIdx.v) computes the
   model's get_unique_idxs, for every list of tensors ---- *)
From XV Require Import Base.PyLib Gen.PyPackerIdx Proofs.PyUniqueProofs.
Theorem C20_translated_unique_idxs_is_model : forall b : list tens,
  packer_get_unique_idxs (map (fun t => tens_obj (tid t)) b) =
  Ok (map Z.of_nat (fst (get_unique_idxs b)), map Z.of_nat (snd (get_unique_idxs b))).
Proof. exact packer_get_unique_idxs_model. Qed.
Print Assumptions C20_translated_unique_idxs_is_model.

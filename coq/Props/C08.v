(* C08 — solve_ivp gradients w.r.t. y0, parameters and times are the true sensitivities. *)
From mathcomp Require Import all_ssreflect all_algebra.
From XV Require Import Base.Ops Base.Deriv Model.ExplicitRK Model.Quad Proofs.ExprDeriv Proofs.IvpBackward.
Import GRing.Theory.
Local Open Scope ring_scope.

(* T1: the loop of the source (start at the last requested time with its cotangent; after every nested solve add
   the incoming cotangent of the time reached) computes the recursive specification, for any number of segments:
   lam(t_0) and the accumulated parameter gradient are those of
        lam_i = g_i + P_i lam_{i+1},   q_i = q_{i+1} + Q_i lam_{i+1}.                                          *)
Theorem C08_loop_correct : forall (R : comRingType) n k (segs : seq ('M[R]_n * 'M[R]_(k, n))) (g0 : 'cV[R]_n) (gs : seq 'cV[R]_n),
  size gs = size segs -> forall q : 'cV[R]_k,
  loop (rev segs) (rev (belast g0 gs)) (last g0 gs) q = ((back segs g0 gs).1, q + (back segs g0 gs).2).
Proof. exact loop_correct. Qed.
Print Assumptions C08_loop_correct.

(* T2: superposition.  The result is additive in the cotangents ... *)
Theorem C08_back_additive : forall (R : comRingType) n k (segs : seq ('M[R]_n * 'M[R]_(k, n))) (g0 h0 : 'cV[R]_n) gs hs,
  size gs = size hs ->
  back segs (g0 + h0) [seq x.1 + x.2 | x <- zip gs hs] =
  ((back segs g0 gs).1 + (back segs h0 hs).1, (back segs g0 gs).2 + (back segs h0 hs).2).
Proof. exact back_add. Qed.
Print Assumptions C08_back_additive.

(* ... and a cotangent that touches one output time j gives the composed pull-back P_0 ... P_{j-1} g and the Q terms
   met on the way: re-seeding segment by segment = one independent adjoint solve per output time, summed *)
Theorem C08_back_single : forall (R : comRingType) n k (segs : seq ('M[R]_n * 'M[R]_(k, n))) j r (g : 'cV[R]_n),
  (j <= size segs)%N ->
  backl segs (nseq j 0 ++ g :: nseq r 0) = pull segs j g.
Proof. exact back_single. Qed.
Print Assumptions C08_back_single.

(* T3: the vector-Jacobian products of the augmented dynamics in the executable model are built from the symbolic
   derivative, which is the derivative (any field, any derivation that kills the unused first slot): the components
   -lam^T df/dy, -lam^T df/dt, -lam^T df/dp contract the true partial derivatives *)
Theorem C08_symbolic_partials : forall (F : fieldType) (D : derivation F) (e : fexp) (t : F) (vars : seq F),
  D t = 0 ->
  D (feval (FieldOps F) e t vars) = \sum_(j < size vars) feval (FieldOps F) (dfexp j e) t vars * D (nth 0 vars j).
Proof. exact dfexp_correct. Qed.
Print Assumptions C08_symbolic_partials.

(* ---- xitorch/_utils/misc.py:TensorNonTensorSeparator as translated from /repo on this run (Gen/PyMisc.v): for EVERY
   parameter list the split followed by reconstruct_params is the identity (also with the default non-tensor part),
   new tensor arguments land at the tensor positions in order, a wrong number of arguments is rejected.  Statement:
   Proofs/PySeparatorProofs.v, translated_separator_statement. ---- *)
From XV Require Proofs.PySeparatorProofs.
Theorem C08_translated_separator_roundtrip : PySeparatorProofs.translated_separator_statement.
Proof. exact PySeparatorProofs.translated_separator. Qed.
Print Assumptions C08_translated_separator_roundtrip.

(* ---- xitorch/_utils/misc.py:TensorPacker.__init__ as translated from /repo on this run (Gen/PyTensorPacker.v, tensors
   modelled by their shapes): contiguous (start, finish, shape) triples, and cutting the concatenated flat payload at these
   offsets returns every tensor's payload, for EVERY list of shapes (tuple-valued states).  Statement:
   Proofs/PyTensorPackerProofs.v, translated_tensorpacker_statement. ---- *)
From XV Require Proofs.PyTensorPackerProofs.
Theorem C08_translated_tensorpacker_slices : PyTensorPackerProofs.translated_tensorpacker_statement.
Proof. exact PyTensorPackerProofs.translated_tensorpacker. Qed.
Print Assumptions C08_translated_tensorpacker_slices.

(* C02 — gradients through solve equal the derivative of the exact solution map. *)
From mathcomp Require Import all_ssreflect all_algebra.
From XV Require Import Base.Deriv Base.MxDeriv Proofs.SolveBackward Proofs.ConjAdjoint.
Import GRing.Theory.
Local Open Scope ring_scope.

(* T1: tangent of the defining equation under ANY derivation (any differentiable parametrisation of
   A, M, B, E; applied twice: second order), any size, any number of columns *)
Theorem C02_solve_tangent : forall (R : comRingType) (D : derivation R) n c (A M : 'M[R]_n) (X B : 'M[R]_(n, c)) (E : 'M[R]_c),
  A *m X - M *m X *m E = B ->
  A *m dmx D X - M *m dmx D X *m E = dmx D B - dmx D A *m X + dmx D M *m X *m E + M *m X *m dmx D E.
Proof. exact solve_tangent. Qed.
Print Assumptions C02_solve_tangent.

(* T2: the backward pass is the adjoint of the tangent: with V solving the transposed system for the
   incoming cotangent G, the four outputs of the code pair with every tangent to <G, dX> *)
Theorem C02_solve_backward_adjoint : forall (R : comRingType) (D : derivation R) n c (A M : 'M[R]_n) (X B : 'M[R]_(n, c)) (E : 'M[R]_c)
  (G V : 'M[R]_(n, c)),
  A *m X - M *m X *m E = B -> E^T = E -> A^T *m V - M^T *m V *m E = G ->
  \tr (G^T *m dmx D X) =
  \tr (V^T *m dmx D B) - \tr (V^T *m (dmx D A *m X)) + \tr (V^T *m (dmx D M *m X *m E)) + \tr (V^T *m (M *m X *m dmx D E)).
Proof. exact solve_backward_adjoint. Qed.
Print Assumptions C02_solve_backward_adjoint.

(* T3: inputs that do not influence X receive no gradient *)
Theorem C02_unused_inputs_zero : forall (R : comRingType) (D : derivation R) n c (A M : 'M[R]_n) (X B : 'M[R]_(n, c)) (E : 'M[R]_c)
  (G V : 'M[R]_(n, c)),
  dmx D A = 0 -> dmx D M = 0 -> dmx D B = 0 -> dmx D E = 0 ->
  A *m X - M *m X *m E = B -> E^T = E -> A^T *m V - M^T *m V *m E = G -> \tr (G^T *m dmx D X) = 0.
Proof. exact unused_inputs_zero. Qed.
Print Assumptions C02_unused_inputs_zero.

(* T4: the branch without E (and M) is the instance M = 1, E = 0 *)
Theorem C02_solve_backward_no_E : forall (R : comRingType) (D : derivation R) n c (A : 'M[R]_n) (X B G V : 'M[R]_(n, c)),
  A *m X = B -> A^T *m V = G ->
  \tr (G^T *m dmx D X) = \tr (V^T *m dmx D B) - \tr (V^T *m (dmx D A *m X)).
Proof. exact solve_backward_no_E. Qed.
Print Assumptions C02_solve_backward_no_E.

(* T5: the conjugate (complex) case: with V the solution of the adjoint system (A - E M)^H V = G, i.e.
   A^H V - M^H V conj(E) = G, the same identity holds for the sesquilinear pairing tr(G^H dX) (any field with an
   involutive conjugation): grad_B = V, the A-part pairs V with dA X, the M-part with dM X E, the E-part with M X dE *)
Theorem C02_solve_backward_adjoint_conj : forall (F : fieldType) (cj : {rmorphism F -> F}), involutive cj ->
  forall (D : derivation F) n c (A M : 'M[F]_n) (X B G V : 'M[F]_(n, c)) (E : 'M[F]_c),
  A *m X - M *m X *m E = B ->
  map_mx cj A^T *m V - map_mx cj M^T *m V *m map_mx cj E^T = G ->
  \tr (map_mx cj G^T *m dmx D X) =
  \tr (map_mx cj V^T *m dmx D B) - \tr (map_mx cj V^T *m (dmx D A *m X)) + \tr (map_mx cj V^T *m (dmx D M *m X *m E))
  + \tr (map_mx cj V^T *m (M *m X *m dmx D E)).
Proof. move=> F cj cjK D n c A M X B G V E; exact: solve_backward_adjoint_conj. Qed.
Print Assumptions C02_solve_backward_adjoint_conj.

(* C11 — LinearOperator products are mutually consistent for every operator expression. *)
From mathcomp Require Import all_ssreflect all_algebra.
From Coq Require Import ZArith.
From XV Require Import Model.LinopExpr Model.LinopFlags Proofs.LinopSound Proofs.LinopFlagsProofs.
Import GRing.Theory.
Local Open Scope ring_scope.

(* T1: for EVERY expression tree, size, operand width, and commutative ring with an involution:
   mv / mm apply the expression's matrix, rmv / rmm its conjugate transpose, fullmatrix returns it *)
Theorem C11_products_sound :
  forall (R : comRingType) (cj : {rmorphism R -> R}), involutive cj ->
  forall (n : nat) (M : nat -> 'M[R]_n) (e : lexpr), herm_ok cj M e ->
  forall r (X : 'M[R]_(n, r)),
  [/\ tsem cj M (mv_ e TX) X = denote cj M e *m X,
      tsem cj M (rmv_ e TX) X = adjn cj (denote cj M e) *m X,
      tsem cj M (mm_ e TX) X = denote cj M e *m X,
      tsem cj M (rmm_ e TX) X = adjn cj (denote cj M e) *m X &
      tsem cj M (full_ e) (1%:M : 'M[R]_n) = denote cj M e].
Proof. exact products_sound. Qed.
Print Assumptions C11_products_sound.

(* T2: no product of any expression over leaves with ANY subset of the optional methods ends in
   the NotImplementedError stub of the base class (false before fix F8) *)
Theorem C11_products_total :
  forall (R : comRingType) (cj : {rmorphism R -> R}), involutive cj ->
  forall (n : nat) (M : nat -> 'M[R]_n) (e : lexpr), herm_ok cj M e ->
  [/\ raises (mv_ e TX) = false, raises (rmv_ e TX) = false, raises (mm_ e TX) = false,
      raises (rmm_ e TX) = false & raises (full_ e) = false].
Proof. exact products_total. Qed.
Print Assumptions C11_products_total.

(* T3: an expression's matrix is the same expression of its operands' matrices, also through the
   simplifying constructors (.H of Hermitian / dense / adjoint, dense (x) dense) *)
Theorem C11_constructors_denote :
  forall (R : comRingType) (cj : {rmorphism R -> R}), involutive cj ->
  forall (n : nat) (M : nat -> 'M[R]_n) a b f h dh plus,
  [/\ denote cj M (mk_matmul a b h) = denote cj M a *m denote cj M b,
      denote cj M (mk_add a b plus dh) =
        (if plus then denote cj M a + denote cj M b else denote cj M a - denote cj M b),
      denote cj M (mk_mul a f dh) = zr R f *: denote cj M a &
      herm_ok cj M a -> denote cj M (mk_H a dh) = adjn cj (denote cj M a)].
Proof. exact constructors_denote. Qed.
Print Assumptions C11_constructors_denote.

(* T4: capability flags are those of the class itself for every class table and every
   instantiation history (false before fixes F9/F9b) *)
Theorem C11_flags_history_independent : forall tb h,
  fst (run tb h (init_state tb)) = List.map (spec_outcome tb) h.
Proof. exact flags_from_fresh. Qed.
Print Assumptions C11_flags_history_independent.

(* non-vacuity *)
Example C11_nonvacuous_dispatch :
  let mvonly := mkCaps false false false false in
  let e := Mul (Adj (Leaf 0 mvonly false)) 2%Z in
  run_op ORmv e = TScale 2%Z (TUmv 0 TX) /\
  run_op OMv e = TScale 2%Z (TAdjTrick (TUmv 0 TX) TX) /\
  raises (run_op ORmm e) = false.
Proof. by []. Qed.

Example C11_nonvacuous_flags :
  let tb := [:: mkCls None [:: Mv]; mkCls (Some O) [:: Rmv; Mm]] in
  fst (run tb [:: User 0; User 1; Base; User 0] (init_state tb)) =
  [:: Ok [:: true; false; false; false; false; false];
      Ok [:: true; true; true; false; false; false]; ErrNoMv;
      Ok [:: true; false; false; false; false; false]].
Proof. by []. Qed.

(* ---- the code of xitorch/_utils/bcast.py as translated from /repo on this run (Gen/PyBcast.v): for two or more
   shapes get_bcasted_dims IS the broadcast shape of Base/Shapes.v; with no shape it raises.  Statement:
   Proofs/PyBcastProofs.v, translated_bcast_statement. ---- *)
From XV Require Proofs.PyBcastProofs.
Theorem C11_translated_bcast_is_model : PyBcastProofs.translated_bcast_statement.
Proof. exact PyBcastProofs.translated_bcast. Qed.
Print Assumptions C11_translated_bcast_is_model.

(* C07 — solve_ivp integrates the ODE with the declared scheme and accuracy.
   The tableaux are the ones regenerated from /repo into Gen/Tableaus.v for this run. *)
From Coq Require Import String.
From Coq Require Import QArith List Bool Arith.
Import ListNotations.
From XV Require Import Base.Butcher Base.Ops Proofs.ButcherProofs Model.ExplicitRK Model.AdaptiveRK
                       Proofs.RKProofs Gen.Tableaus Gen.MethodTables Model.Dispatch.
Close Scope string_scope.
Open Scope list_scope.
Open Scope Q_scope.

(* extended tableau of an embedded pair as rk_step uses it: stages 0..n-1 from A, stage n (the
   FSAL evaluation at t+h) has the solution weights B as its row; solution weights B ++ [0] *)
Definition pad (n : nat) (r : list Q) : list Q := (r ++ repeat 0 (n - length r))%list.
Definition ext_A (A : list (list Q)) (B : list Q) : list (list Q) :=
  let n := S (length B) in (map (pad n) A ++ [pad n B])%list.
Definition ext_b (B : list Q) : list Q := (B ++ [0])%list.
Definition ext_c (C : list Q) : list Q := (C ++ [1])%list.

(* ---- order conditions: every rooted tree up to the declared order, by computation ---- *)
Theorem C07_rk4_order4 :
  check_order 4 rk4_a rk4_b = true /\ check_order 5 rk4_a rk4_b = false /\
  row_sums_ok rk4_a rk4_c = true /\ strictly_lower 0 rk4_a = true.
Proof. vm_compute. repeat split; reflexivity. Qed.
Print Assumptions C07_rk4_order4.

Theorem C07_rk38_order4 :
  check_order 4 rk38_a rk38_b = true /\ check_order 5 rk38_a rk38_b = false /\
  row_sums_ok rk38_a rk38_c = true /\ strictly_lower 0 rk38_a = true.
Proof. vm_compute. repeat split; reflexivity. Qed.
Print Assumptions C07_rk38_order4.

Theorem C07_euler_order1 :
  check_order 1 euler_a euler_b = true /\ check_order 2 euler_a euler_b = false /\
  row_sums_ok euler_a euler_c = true /\ strictly_lower 0 euler_a = true.
Proof. vm_compute. repeat split; reflexivity. Qed.
Print Assumptions C07_euler_order1.

Theorem C07_rk23_pair :
  let Ae := ext_A rk23_A rk23_B in
  check_order 3 Ae (ext_b rk23_B) = true /\ check_order 4 Ae (ext_b rk23_B) = false /\
  annihilates 2 Ae rk23_E = true /\ annihilates 3 Ae rk23_E = false /\     (* estimator order 2, not blind *)
  row_sums_ok Ae (ext_c rk23_C) = true /\ strictly_lower 0 Ae = true /\
  rk23_n_stages = length rk23_A /\ S rk23_error_estimator_order = 3%nat /\
  Qeq_bool rk23_error_exponent (- (1 # Pos.of_nat (S rk23_error_estimator_order))) = true /\
  length rk23_E = S rk23_n_stages.
Proof. vm_compute. repeat split; reflexivity. Qed.
Print Assumptions C07_rk23_pair.

Theorem C07_rk45_pair :
  let Ae := ext_A rk45_A rk45_B in
  check_order 5 Ae (ext_b rk45_B) = true /\ check_order 6 Ae (ext_b rk45_B) = false /\
  annihilates 4 Ae rk45_E = true /\ annihilates 5 Ae rk45_E = false /\
  row_sums_ok Ae (ext_c rk45_C) = true /\ strictly_lower 0 Ae = true /\
  rk45_n_stages = length rk45_A /\ S rk45_error_estimator_order = 5%nat /\
  Qeq_bool rk45_error_exponent (- (1 # Pos.of_nat (S rk45_error_estimator_order))) = true /\
  length rk45_E = S rk45_n_stages.
Proof. vm_compute. repeat split; reflexivity. Qed.
Print Assumptions C07_rk45_pair.

(* what the computation above means: the elementary weight of EVERY rooted tree of order <= p
   equals 1/gamma (the enumeration is proved complete) *)
Theorem C07_order_conditions_all_trees : forall t : tree,
  ((order t <= 4)%nat -> weight rk4_a rk4_b t == 1 # gamma t) /\
  ((order t <= 4)%nat -> weight rk38_a rk38_b t == 1 # gamma t) /\
  ((order t <= 1)%nat -> weight euler_a euler_b t == 1 # gamma t) /\
  ((order t <= 3)%nat -> weight (ext_A rk23_A rk23_B) (ext_b rk23_B) t == 1 # gamma t) /\
  ((order t <= 2)%nat -> weight (ext_A rk23_A rk23_B) rk23_E t == 0) /\
  ((order t <= 5)%nat -> weight (ext_A rk45_A rk45_B) (ext_b rk45_B) t == 1 # gamma t) /\
  ((order t <= 4)%nat -> weight (ext_A rk45_A rk45_B) rk45_E t == 0).
Proof.
  intros t.
  split; [apply check_order_sound; apply C07_rk4_order4|].
  split; [apply check_order_sound; apply C07_rk38_order4|].
  split; [apply check_order_sound; apply C07_euler_order1|].
  split; [apply check_order_sound; apply C07_rk23_pair|].
  split; [apply annihilates_sound; apply C07_rk23_pair|].
  split; [apply check_order_sound; apply C07_rk45_pair|].
  apply annihilates_sound; apply C07_rk45_pair.
Qed.
Print Assumptions C07_order_conditions_all_trees.

(* the public method names reach these tableaux *)
Theorem C07_method_names :
  tlookup "rk4"%string tbl_solve_ivp = Some "rk4_ivp"%string /\ tlookup "rk4_ivp"%string fixed_step_uses = Some "rk4"%string /\
  tlookup "rk38"%string tbl_solve_ivp = Some "rk38_ivp"%string /\ tlookup "rk38_ivp"%string fixed_step_uses = Some "rk38"%string /\
  tlookup "euler"%string tbl_solve_ivp = Some "fwd_euler_ivp"%string /\ tlookup "fwd_euler_ivp"%string fixed_step_uses = Some "euler"%string /\
  tlookup "rk23"%string tbl_solve_ivp = Some "rk23_adaptive"%string /\ tlookup "rk45"%string tbl_solve_ivp = Some "rk45_adaptive"%string.
Proof. vm_compute. repeat split; reflexivity. Qed.
Print Assumptions C07_method_names.

(* ---- the fixed-step driver (any carrier, any field, any tableau) ---- *)
Theorem C07_explicit_first_is_y0 : forall T (o : ops T) f c b a ts y0,
  hd_error (fst (explicit_rk o f c b a ts y0)) = Some y0.
Proof. intros. apply explicit_first_is_y0. Qed.
Print Assumptions C07_explicit_first_is_y0.

Theorem C07_explicit_length : forall T (o : ops T) f c b a ts y0, ts <> [] ->
  length (fst (explicit_rk o f c b a ts y0)) = length ts.
Proof. intros. apply explicit_length; assumption. Qed.
Print Assumptions C07_explicit_length.

Theorem C07_explicit_prefix : forall T (o : ops T) f c b a ts more y0, ts <> [] ->
  firstn (length ts) (fst (explicit_rk o f c b a (ts ++ more)%list y0)) = fst (explicit_rk o f c b a ts y0).
Proof. intros. apply explicit_prefix; assumption. Qed.
Print Assumptions C07_explicit_prefix.

Theorem C07_explicit_one_step_per_interval : forall T (o : ops T) f c b a ts y0,
  length c = length b -> length c = length a ->
  length (snd (explicit_rk o f c b a ts y0)) = (pred (length ts) * length c)%nat.
Proof. intros. apply explicit_calls_per_interval; assumption. Qed.
Print Assumptions C07_explicit_one_step_per_interval.

(* ---- the adaptive controller ---- *)
Theorem C07_adaptive_accept_bound : forall T (o : ops T) func A B C E atol rtol maxf minf smult qp1
  fuel st t1 pr st' reached l,
  single_step o func A B C E atol rtol maxf minf smult qp1 fuel st t1 pr = (Some (st', reached), l) ->
  exists pre last, l = (pre ++ [last])%list /\ Forall (fun a => at_accepted a = false) pre /\
    at_accepted last = true /\ oltb o (at_errnorm last) (o1 o) = true /\
    at_state last = st' /\ at_t1_achieved last = reached.
Proof. intros. eapply adaptive_accept_bound; eassumption. Qed.
Print Assumptions C07_adaptive_accept_bound.

Theorem C07_adaptive_lands_on_target : forall T (o : ops T) func A B C E atol rtol maxf minf smult qp1 st t1 pr,
  let a := try_step o func A B C E atol rtol maxf minf smult qp1 st t1 pr in
  at_t1_achieved a = true ->
  at_hstep a = osub o t1 (s_t st) /\ s_t (at_state a) = oadd o (s_t st) (osub o t1 (s_t st)).
Proof. intros. apply adaptive_lands_on_target. assumption. Qed.
Print Assumptions C07_adaptive_lands_on_target.

Theorem C07_adaptive_factor_bounds : forall T (o : ops T) func A B C E atol rtol maxf minf smult qp1 st t1 pr,
  let a := try_step o func A B C E atol rtol maxf minf smult qp1 st t1 pr in
  (at_accepted a = false ->
     exists g, s_h (at_state a) = omul o (at_hstep a) g /\ (g = minf \/ oltb o minf g = true)) /\
  (at_accepted a = true -> at_t1_achieved a = false ->
     exists g, s_h (at_state a) = omul o (s_h st) g /\
               (g = maxf \/ oltb o g maxf = true \/ g = o1 o) /\
               (pr = true -> g = o1 o \/ oltb o g (o1 o) = true)) /\
  (at_accepted a = true -> at_t1_achieved a = true -> s_h (at_state a) = s_h st).
Proof. intros. apply adaptive_factor_bounds. Qed.
Print Assumptions C07_adaptive_factor_bounds.

(* non-vacuity: one exact rk4 step of y' = y from 0 to 1 over Q gives 65/24 = 1+1+1/2+1/6+1/24 *)
Example C07_nonvacuous :
  fst (explicit_rk Qops (field Qops [FY 0]) rk4_c rk4_b rk4_a [0; 1] [1]) = [[1]; [65 # 24]].
Proof. vm_compute. reflexivity. Qed.

(* ---- xitorch/_utils/misc.py:TensorPacker.__init__ as translated from /repo on this run (Gen/PyTensorPacker.v, tensors
   modelled by their shapes): contiguous (start, finish, shape) triples, and cutting the concatenated flat payload at these
   offsets returns every tensor's payload, for EVERY list of shapes (tuple-valued states).  Statement:
   Proofs/PyTensorPackerProofs.v, translated_tensorpacker_statement. ---- *)
From XV Require Proofs.PyTensorPackerProofs.
Theorem C07_translated_tensorpacker_slices : PyTensorPackerProofs.translated_tensorpacker_statement.
Proof. exact PyTensorPackerProofs.translated_tensorpacker. Qed.
Print Assumptions C07_translated_tensorpacker_slices.

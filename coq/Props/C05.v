(* C05 — symeig and svd return the requested, correctly normalised spectral pairs. *)
From Coq Require Import List Arith ZArith Sorted.
From mathcomp Require Import all_ssreflect all_algebra.
From XV Require Import Base.Ops Base.LinAlg Model.Symeig Proofs.SymeigAlgebra Proofs.SymeigProofs.
Import GRing.Theory.
Local Open Scope ring_scope.

(* T1: the slice of an ascending spectrum keeps exactly the neig lowest / uppermost values, in order,
   and values and vector columns are cut with the same indices (any length, any neig in range) *)
Theorem C05_take_lowest : forall (l : list Z) (neig : nat), Sorted Z.le l -> (neig <= length l)%coq_nat ->
  let r := take true neig l in
  exists dropped, l = (r ++ dropped)%list /\ length r = neig /\ Sorted Z.le r /\
                  (forall x y, List.In x r -> List.In y dropped -> Z.le x y).
Proof. exact take_lowest_spec. Qed.
Print Assumptions C05_take_lowest.

Theorem C05_take_uppest : forall (l : list Z) (neig : nat), Sorted Z.le l -> ((1 <= neig)%coq_nat /\ (neig <= length l)%coq_nat) ->
  let r := take false neig l in
  exists dropped, l = (dropped ++ r)%list /\ length r = neig /\ Sorted Z.le r /\
                  (forall x y, List.In x dropped -> List.In y r -> Z.le x y).
Proof. exact take_uppest_spec. Qed.
Print Assumptions C05_take_uppest.

Theorem C05_take_same_indices : forall (X Y : Type) (lowest : bool) (neig : nat) (l : list X) (f : X -> Y),
  take lowest neig (List.map f l) = List.map f (take lowest neig l).
Proof. exact @take_same_indices. Qed.
Print Assumptions C05_take_same_indices.

(* T2: the dense path with M: with L L^H = M and Linv its inverse, eigenpairs (e, Y) of
   A2 = Linv A Linv^H with orthonormal Y give X = Linv^H Y with A X = M X diag(e) and X^H M X = I
   (any size, any number of kept columns, any field with an involutive conjugation) *)
Theorem C05_exacteig_M_eigen : forall (F : fieldType) (cj : {rmorphism F -> F}) n k
  (A M L Linv : 'M[F]_n) (Y : 'M[F]_(n, k)) (e : 'rV[F]_k),
  L *m map_mx cj L^T = M -> Linv *m L = 1%:M -> L *m Linv = 1%:M ->
  (Linv *m (A *m map_mx cj Linv^T)) *m Y = Y *m diag_mx e ->
  let X := map_mx cj Linv^T *m Y in A *m X = M *m X *m diag_mx e.
Proof. move=> F cj n k A M L Linv Y e HM HL HR He; exact: (exacteig_M_eigen HM HL HR He). Qed.
Print Assumptions C05_exacteig_M_eigen.

Theorem C05_exacteig_M_orthonormal : forall (F : fieldType) (cj : {rmorphism F -> F}), involutive cj -> forall n k
  (M L Linv : 'M[F]_n) (Y : 'M[F]_(n, k)),
  L *m map_mx cj L^T = M -> Linv *m L = 1%:M ->
  map_mx cj Y^T *m Y = 1%:M ->
  let X := map_mx cj Linv^T *m Y in map_mx cj X^T *m M *m X = 1%:M.
Proof. move=> F cj cjK n k M L Linv Y HM HL HY; exact: (exacteig_M_orthonormal cjK HM HL HY). Qed.
Print Assumptions C05_exacteig_M_orthonormal.

(* T3: davidson: tallqr makes the basis M-orthonormal; Ritz vectors of an M-orthonormal basis are
   M-orthonormal; their residual is orthogonal to the basis; on the full space they are exact *)
Theorem C05_tallqr_orthonormal : forall (F : fieldType) (cj : {rmorphism F -> F}), involutive cj -> forall n g
  (M : 'M[F]_n) (V : 'M[F]_(n, g)) (C Rinv : 'M[F]_g),
  C *m map_mx cj C^T = map_mx cj (map_mx cj V^T *m (M *m V))^T -> map_mx cj M^T = M ->
  map_mx cj C^T *m Rinv = 1%:M ->
  let Q := V *m Rinv in map_mx cj Q^T *m (M *m Q) = 1%:M.
Proof. move=> F cj cjK n g M V C Rinv HC HM HiR; exact: (tallqr_orthonormal cjK HC HM HiR). Qed.
Print Assumptions C05_tallqr_orthonormal.

Theorem C05_ritz_orthonormal : forall (F : fieldType) (cj : {rmorphism F -> F}) n g k
  (M : 'M[F]_n) (Q : 'M[F]_(n, g)) (c : 'M[F]_(g, k)),
  map_mx cj Q^T *m (M *m Q) = 1%:M -> map_mx cj c^T *m c = 1%:M ->
  let X := Q *m c in map_mx cj X^T *m (M *m X) = 1%:M.
Proof. move=> F cj n g k M Q c HQ Hc; exact: (ritz_orthonormal HQ Hc). Qed.
Print Assumptions C05_ritz_orthonormal.

Theorem C05_davidson_full_subspace_exact : forall (F : fieldType) (cj : {rmorphism F -> F}) n k
  (A M Q : 'M[F]_n) (c : 'M[F]_(n, k)) (th : 'rV[F]_k),
  map_mx cj Q^T *m (M *m Q) = 1%:M -> (map_mx cj Q^T *m (A *m Q)) *m c = c *m diag_mx th ->
  A *m (Q *m c) = M *m (Q *m c) *m diag_mx th.
Proof. exact davidson_full_subspace_exact. Qed.
Print Assumptions C05_davidson_full_subspace_exact.

(* T4: davidson returns the visited Ritz pair of least residual; leaving through the residual test
   means that residual is below min_eps (any carrier whose comparison is a strict weak order, any
   operator, tape of LAPACK answers, budget) *)
Theorem C05_davidson_returns_best : forall T (o : ops T) (cj : T -> T),
  (forall a, oltb o a a <> true) ->
  (forall a b c, oltb o a b = true -> oltb o b c = true -> oltb o a c = true) ->
  (forall a b c, oltb o a c = true -> oltb o a b = true \/ oltb o b c = true) ->
  forall lowest neig useM A M min_eps fuel tape V AV inf,
  let r := dav_loop o cj fuel lowest neig useM A M min_eps tape V AV false inf nil nil in
  List.Forall (fun l => oltb o (lg_maxresid l) (dv_best_resid r) <> true) (dv_logs r) /\
  (dv_has_best r = true -> visited r (dv_best_resid r, dv_evals r, dv_evecs r)) /\
  (dv_exit r = ExitResid -> oltb o (dv_best_resid r) min_eps = true).
Proof. intros; apply davidson_returns_best; assumption. Qed.
Print Assumptions C05_davidson_returns_best.

(* T5: svd from the eigenpairs of B^H B (tall/square; the wide case is the same statement for B^H):
   orthonormal U, B v_i = s_i u_i, B^H u_i = s_i v_i, and U diag(s) V^H = B for full k *)
Theorem C05_svd_factors : forall (F : fieldType) (cj : {rmorphism F -> F}) m n k
  (B : 'M[F]_(m, n)) (V : 'M[F]_(n, k)) (s : 'rV[F]_k),
  map_mx cj s = s -> (forall i, s 0 i != 0) ->
  (map_mx cj B^T *m B) *m V = V *m diag_mx (\row_i (s 0 i * s 0 i)) ->
  map_mx cj V^T *m V = 1%:M ->
  let U := B *m V *m diag_mx (\row_i (s 0 i)^-1) in
  [/\ map_mx cj U^T *m U = 1%:M, B *m V = U *m diag_mx s, map_mx cj B^T *m U = V *m diag_mx s
    & V *m map_mx cj V^T = 1%:M -> U *m diag_mx s *m map_mx cj V^T = B].
Proof.
move=> F cj m n k B V s Hr Hnz He HV; split.
- exact: (svd_U_orthonormal Hr Hnz He HV).
- exact: (svd_Av B V Hnz).
- exact: (svd_AHu Hnz He).
- exact: (svd_reconstruct B Hnz).
Qed.
Print Assumptions C05_svd_factors.

(* C01 — solve returns the solution of AX - MXE = B, or warns that it did not. *)
From Coq Require Import String.
From Coq Require Import List Arith.
From mathcomp Require Import all_ssreflect all_algebra.
From XV Require Import Base.Ops Base.Shapes Model.Krylov Proofs.KrylovProofs Proofs.SolveAlgebra Model.Dispatch.
Import GRing.Theory.
Local Open Scope ring_scope.

(* T1: a silent return of cg / bicgstab: the carried residual norm of the RETURNED iterate is below
   the threshold max(rtol |b_j|, atol) of every column j -- any carrier, operator, number of columns,
   resid_calc_every, eps, budget (false before fix F15: best_xk chosen by the max-over-columns norm) *)
Theorem C01_cg_silent_meets_tol : forall T (o : ops T) Afs eps fuel k every bs stops cols br bx,
  let out := cg_loop o Afs eps fuel k every bs stops cols br bx in
  co_warned out = false ->
  all_below o (co_resid out) stops = true /\ (co_iters out < k + fuel)%coq_nat.
Proof. intros; apply cg_silent_meets_tol; assumption. Qed.
Print Assumptions C01_cg_silent_meets_tol.

Theorem C01_bicgstab_silent_meets_tol : forall T (o : ops T) Afs eps fuel k every bs stops cols br bx,
  let out := bc_loop o Afs eps fuel k every bs stops cols br bx in
  co_warned out = false ->
  all_below o (co_resid out) stops = true /\ (co_iters out < k + fuel)%coq_nat.
Proof. intros; apply bicgstab_silent_meets_tol; assumption. Qed.
Print Assumptions C01_bicgstab_silent_meets_tol.

(* T2: the carried residual IS the true residual in exact arithmetic: one step of each recurrence
   preserves r = b - A x (any field, any size); so the test above is a test on b - A x *)
Theorem C01_cg_step_residual : forall (F : fieldType) n (A : 'M[F]_n) (b x r p : 'cV[F]_n) al,
  r = b - A *m x -> r - al *: (A *m p) = b - A *m (x + al *: p).
Proof. exact cg_step_residual. Qed.
Print Assumptions C01_cg_step_residual.

Theorem C01_bicgstab_step_residual : forall (F : fieldType) n (A : 'M[F]_n) (b x r y : 'cV[F]_n) al om,
  r = b - A *m x ->
  let v := A *m y in let h := x + al *: y in let s := r - al *: v in let t := A *m s in
  s - om *: t = b - A *m (h + om *: s).
Proof. exact bicgstab_step_residual. Qed.
Print Assumptions C01_bicgstab_step_residual.

(* T3: the fallback for problems that are not positive definite solves the original system, and the
   adjoint it needs is A^H - conj(e) M^H (fix F13) *)
Theorem C01_normal_equations_sound : forall (F : fieldType) (cj : {rmorphism F -> F}) n (A : 'M[F]_n) c (b x : 'M[F]_(n, c)),
  A \in unitmx -> (map_mx cj A^T) *m (A *m x) = (map_mx cj A^T) *m b -> A *m x = b.
Proof. exact normal_equations_sound. Qed.
Print Assumptions C01_normal_equations_sound.

Theorem C01_shifted_adjoint : forall (F : fieldType) (cj : {rmorphism F -> F}) n (A M : 'M[F]_n) (e : F),
  map_mx cj (A - e *: M)^T = map_mx cj A^T - cj e *: map_mx cj M^T.
Proof. exact shifted_adjoint. Qed.
Print Assumptions C01_shifted_adjoint.

(* T4: the direct path: Cholesky reduction for M, per-column shifted solve without M *)
Theorem C01_exactsolve_M_sound : forall (F : fieldType) (cj : {rmorphism F -> F}) n (A M L Linv : 'M[F]_n) (e : F) (b x2 : 'cV[F]_n),
  L *m map_mx cj L^T = M -> Linv *m L = 1%:M -> L *m Linv = 1%:M ->
  (Linv *m (A *m map_mx cj Linv^T)) *m x2 - e *: x2 = Linv *m b ->
  let x := map_mx cj Linv^T *m x2 in A *m x - e *: (M *m x) = b.
Proof. exact exactsolve_M_sound. Qed.
Print Assumptions C01_exactsolve_M_sound.

Theorem C01_solve_ABE_sound : forall (F : fieldType) n (A : 'M[F]_n) (e : F) (b x : 'cV[F]_n),
  (A - e%:M) *m x = b -> A *m x - e *: x = b.
Proof. exact solve_ABE_sound. Qed.
Print Assumptions C01_solve_ABE_sound.

(* T5: broadcast batch shape *)
Theorem C01_bcast_shapes : forall a b,
  length (get_bcasted_dims [:: a; b]) = Nat.max (length a) (length b) /\ bcast2 a b = bcast2 b a /\ bcast2 a a = a.
Proof.
move=> a b; split; last by split; [apply: bcast2_comm|apply: bcast2_idem].
by rewrite bcast_length /maxlen /= PeanoNat.Nat.max_0_r.
Qed.
Print Assumptions C01_bcast_shapes.

(* T6: default method *)
Theorem C01_dispatch_default : forall a_dense m_dense n herm,
  solve_default a_dense m_dense n herm =
  (if a_dense && m_dense then "exactsolve"%string else if Nat.leb n 5 then "exactsolve"%string
   else if herm then "cg"%string else "bicgstab"%string).
Proof. by []. Qed.
Print Assumptions C01_dispatch_default.

(* ---- the code of xitorch/_utils/bcast.py as translated from /repo on this run (Gen/PyBcast.v): for two or more
   shapes get_bcasted_dims IS the broadcast shape of Base/Shapes.v; with no shape it raises.  Statement:
   Proofs/PyBcastProofs.v, translated_bcast_statement. ---- *)
From XV Require Proofs.PyBcastProofs.
Theorem C01_translated_bcast_is_model : PyBcastProofs.translated_bcast_statement.
Proof. exact PyBcastProofs.translated_bcast. Qed.
Print Assumptions C01_translated_bcast_is_model.

(* C10 — functionals never leave the caller's objects modified, even on failure. *)
From Coq Require Import List Bool Arith.
Import ListNotations.
From XV Require Import Model.Packer Model.PureFn Proofs.PureFnProofs Model.NNParams Proofs.NNParamsProofs.

(* T1: every well-bracketed program (any nesting of parameter substitutions, state-change locks,
   debug switches and user-code evaluations), with a crash at ANY evaluation or none, returns the
   object store, the wrapper's current parameters, its restore stack, the state-change permission
   and the debug flag to exactly what they were *)
Theorem C10_exec_restores : forall p crash s n, wf s -> r_state (exec p crash s n) = s.
Proof. exact exec_restores. Qed.
Print Assumptions C10_exec_restores.

Theorem C10_exec_restores_fresh_wrapper : forall p crash all d,
  let s := r_state (exec p crash (wrap all d) 0) in
  store s = all /\ cur s = unique_objs all /\ stack s = [] /\ allowed s = true /\ dbg s = d.
Proof. exact exec_restores_all. Qed.
Print Assumptions C10_exec_restores_fresh_wrapper.

(* T2: last-in-first-out unwinding *)
Theorem C10_lifo_unwind : forall p s crash n, wf s ->
  r_raised (exec p crash s n) = false ->
  r_trace (exec (PSeq p PCall) crash s n) = r_trace (exec p crash s n) ++ [mkO (store s) (dbg s)].
Proof. exact lifo_unwind. Qed.
Print Assumptions C10_lifo_unwind.

(* T3: a substitution attempted while state changes are disabled is refused before anything is touched *)
Theorem C10_disabled_refuses : forall s new body crash n,
  let r := exec (PDisable (PUse new body)) crash s n in
  r_raised r = true /\ r_state r = s /\ r_trace r = [].
Proof. exact disabled_refuses. Qed.
Print Assumptions C10_disabled_refuses.

(* T4: torch.nn.Module: delete-then-set of every name, first with plain tensors and then with the
   original Parameter objects in the original order, leaves _parameters as it was *)
Theorem C10_module_registration_preserved : forall orig pl news,
  NoDup (map fst orig) -> Forall (fun kv => is_parameter (snd kv) = true) orig ->
  length news = length orig -> Forall (fun v => is_parameter v = false) news ->
  (forall k, In k (map fst orig) -> has_key k pl = false) ->
  params (set_all (set_all (mkM orig pl) (combine (map fst orig) news)) orig) = orig.
Proof. exact module_registration_preserved. Qed.
Print Assumptions C10_module_registration_preserved.

(* non-vacuity: aliased store [7;8;7], nested substitution, crash at the second evaluation *)
Example C10_nonvacuous :
  let p := PUse [1; 2] (PSeq PCall (PDebug true (PUse [3; 4] PCall))) in
  let r := exec p (Some 1) (wrap [7; 8; 7] false) 0 in
  wf (wrap [7; 8; 7] false) /\ r_raised r = true /\
  r_trace r = [mkO [1; 2; 1] false; mkO [3; 4; 3] true] /\
  store (r_state r) = [7; 8; 7] /\ stack (r_state r) = [] /\ dbg (r_state r) = false.
Proof. split; [apply wrap_wf|]. vm_compute. auto. Qed.

(* ---- xitorch/_utils/unique.py:Uniquifier.__init__ as translated from /repo on this run (Gen/PyUnique.v) computes the
   first-occurrence de-duplication [uniq_go] of the model, for every list of objects with distinct identities ---- *)
From Coq Require Import ZArith.
From XV Require Import Base.PyLib Gen.PyUnique Proofs.PyUniqueProofs.
Theorem C10_translated_uniquifier_is_model : forall (f : nat -> obj),
  (forall i j, obj_id (f i) = obj_id (f j) -> i = j) -> forall ids,
  let ui := fst (uniq_go ids 0 [] 0) in
  let inv := snd (uniq_go ids 0 [] 0) in
  uniquifier_init (map f ids) =
  Ok (Z.of_nat (length ids), map f (uniq_new ids [] 0), map Z.of_nat ui, map Z.of_nat inv,
      Z.of_nat (length ui), Z.eqb (Z.of_nat (length ids)) (Z.of_nat (length ui))).
Proof. exact uniquifier_init_refines. Qed.
Print Assumptions C10_translated_uniquifier_is_model.

(* ... and the unique objects the constructor keeps are the model's unique_objs *)
Theorem C10_translated_unique_objs_are_model : forall ids, uniq_new ids [] 0 = unique_objs ids.
Proof. exact uniq_new_is_unique_objs. Qed.
Print Assumptions C10_translated_unique_objs_are_model.

(* ---- PureFunction.set_objparams / restore_objparams / _check_identical_objs of xitorch/_core/pure_function.py as translated
   from /repo on this run (Gen/PyPureFn.v): they ARE the transitions set_obj / restore_obj of the model the theorems above are
   about, and - directly on the translated code - a substitution followed by its restoration gives back the object store, the
   current parameters and the restore stack ---- *)
From Coq Require String.
Import String.StringSyntax.
From XV Require Import Gen.PyPureFn Proofs.PyPureFnProofs.

Theorem C10_translated_check_identical_is_model : forall (f : nat -> obj),
  (forall i j, obj_id (f i) = obj_id (f j) -> i = j) -> forall a b,
  check_identical_objs (map f a) (map f b) = Ok (prefix_identical a b).
Proof. exact check_identical_objs_refines. Qed.
Print Assumptions C10_translated_check_identical_is_model.

Theorem C10_translated_set_objparams_is_model : forall (f : nat -> obj),
  (forall i j, obj_id (f i) = obj_id (f j) -> i = j) -> forall s n uo ui au new,
  uniq_wf s au ->
  purefn_set_objparams (allowed s) (map f (store s)) (uniq_of s n uo ui au) (map f (cur s)) (stack_of f (stack s)) (map f new) =
  (if snd (set_obj s new) then Raise "RuntimeError" else Ok (fields_out f (fst (set_obj s new)))).
Proof. exact set_objparams_refines. Qed.
Print Assumptions C10_translated_set_objparams_is_model.

Theorem C10_translated_restore_objparams_is_model : forall (f : nat -> obj) s n uo ui au old ident r,
  uniq_wf s au -> stack s = (old, ident) :: r -> (ident = false -> length old = nuniq s) ->
  purefn_restore_objparams (allowed s) (map f (store s)) (uniq_of s n uo ui au) (map f (cur s)) (stack_of f (stack s)) =
  Ok (fields_out f (restore_obj s)).
Proof. exact restore_objparams_refines. Qed.
Print Assumptions C10_translated_restore_objparams_is_model.

Theorem C10_translated_set_then_restore_is_identity : forall (f : nat -> obj),
  (forall i j, obj_id (f i) = obj_id (f j) -> i = j) -> forall s n uo ui au new F1,
  wf s -> uniq_wf s au ->
  purefn_set_objparams (allowed s) (map f (store s)) (uniq_of s n uo ui au) (map f (cur s)) (stack_of f (stack s)) (map f new) = Ok F1 ->
  let '(st1, cur1, stk1) := F1 in
  purefn_restore_objparams (allowed s) st1 (uniq_of s n uo ui au) cur1 stk1 = Ok (fields_out f s).
Proof. exact code_set_then_restore. Qed.
Print Assumptions C10_translated_set_then_restore_is_identity.

(* the wrapper state of the model for any parameter list, with the constructor's all_unique flag, meets the side condition *)
Theorem C10_translated_uniquifier_flags_consistent : forall all d,
  uniq_wf (wrap all d) (Z.eqb (Z.of_nat (length all)) (Z.of_nat (length (fst (uniq_ids all))))).
Proof. exact wf_of_init. Qed.
Print Assumptions C10_translated_uniquifier_flags_consistent.

(* Uniquifier.get_unique_objs as translated from /repo on this run: handed a list as long as the constructor's input, it returns
   the entries at the model's first-occurrence positions (Packer.select over uniq_ids), for EVERY list; handed nothing, it
   returns the unique objects the constructor kept *)
Theorem C10_translated_get_unique_objs_is_model : forall (f : nat -> obj) ids uo inv' nu (us : list nat),
  length us = length ids ->
  uniquifier_get_unique_objs (Z.of_nat (length ids)) uo (map Z.of_nat (fst (uniq_ids ids))) inv' nu false (Some (map f us)) =
  Ok (map f (select 0%nat us (fst (uniq_ids ids)))).
Proof. exact get_unique_objs_refines. Qed.
Print Assumptions C10_translated_get_unique_objs_is_model.

Theorem C10_translated_get_unique_objs_default : forall (n : Z) (uo : list obj) (ui inv' : list Z) (nu : Z) (au : bool),
  uniquifier_get_unique_objs n uo ui inv' nu au None = Ok uo.
Proof. exact get_unique_objs_default. Qed.
Print Assumptions C10_translated_get_unique_objs_default.

(* ---- xitorch/_core/editable_module.py as translated from /repo on this run (Gen/PyEditable.v): the search loop of
   _get_unique_params_idxs returns the model's first-occurrence positions for EVERY parameter list; with its groups the scatter of
   setuniqueparams is the model's map_unique and setuniqueparams(getuniqueparams()) is the identity, for every aliasing pattern
   of up to 7 parameters (exhaustive, the bound is part of the statement) ---- *)
From XV Require Import Gen.PyEditable Proofs.PyEditableProofs.

Theorem C10_translated_unique_params_idxs_is_model : forall (f : nat -> obj),
  (forall i j, obj_id (f i) = obj_id (f j) -> i = j) -> forall ids,
  exists groups,
    editable_unique_params_idxs (map f ids) = Ok (map Z.of_nat (fst (uniq_go ids 0 [] 0)), groups) /\
    length groups = length (fst (uniq_go ids 0 [] 0)).
Proof. exact editable_unique_params_idxs_refines. Qed.
Print Assumptions C10_translated_unique_params_idxs_is_model.

Theorem C10_translated_setuniqueparams_upto_7 : forall pat, In pat (all_patterns 7) -> pattern_ok pat = true.
Proof. exact setuniqueparams_roundtrip_upto_7. Qed.
Print Assumptions C10_translated_setuniqueparams_upto_7.

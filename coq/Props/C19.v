(* C19 — calls do not keep tensors alive after their results are dropped. *)
From Coq Require Import List Arith.
Import ListNotations.
From XV Require Import Model.RefGraph Proofs.RefGraphProofs.

(* T1: a reference graph with a rank that increases along every reference (checked by the executable
   [rank_ok]) and no reference from outside is reclaimed completely by reference counting alone *)
Theorem C19_certified_graph_is_reclaimed : forall (g : graph) (rank : nat -> nat) (n : nat),
  rank_ok g rank = true -> (forall v, In v (map fst g) -> rank v < n) -> reclaim n g [] (map fst g) = [].
Proof. exact certified_graph_is_reclaimed. Qed.
Print Assumptions C19_certified_graph_is_reclaimed.

(* T2: a set of live objects each of which is referenced by a member of the set (a reference cycle, e.g. an
   output stored on its own autograd context, or an object holding a closure over itself) survives reference
   counting for ever: only the cyclic collector can free it *)
Theorem C19_cycle_survives : forall (g : graph) (roots C : list nat),
  (forall v, In v C -> exists u, In u C /\ In v (succs g u)) ->
  forall fuel live, (forall v, In v C -> In v live) -> forall v, In v C -> In v (reclaim fuel g roots live).
Proof. exact cycle_survives. Qed.
Print Assumptions C19_cycle_survives.

(* T3: whatever the caller still references (transitively) is kept *)
Theorem C19_rooted_survives : forall (g : graph) (roots S : list nat),
  (forall v, In v S -> In v roots \/ exists u, In u S /\ In v (succs g u)) ->
  forall fuel live, (forall v, In v S -> In v live) -> forall v, In v S -> In v (reclaim fuel g roots live).
Proof. exact rooted_survives. Qed.
Print Assumptions C19_rooted_survives.

(* C19 — calls do not keep tensors alive after their results are dropped. *)
From Coq Require Import List Arith.
Import ListNotations.
From XV Require Import Model.RefGraph Proofs.RefGraphProofs.

(* T1: a reference graph with a rank that increases along every reference (checked by the executable
   [rank_ok]) and no reference from outside is reclaimed completely by reference counting alone *)
Theorem C19_certified_graph_is_reclaimed : forall (g : graph) (rank : nat -> nat) (n : nat),
  rank_ok g rank = true -> (forall v, In v (map fst g) -> rank v < n) -> reclaim n g [] (map fst g) = [].
Proof. exact certified_graph_is_reclaimed. Qed.
Print Assumptions C19_certified_graph_is_reclaimed.

(* T2: a set of live objects each of which is referenced by a member of the set (a reference cycle, e.g. an
   output stored on its own autograd context, or an object holding a closure over itself) survives reference
   counting for ever: only the cyclic collector can free it *)
Theorem C19_cycle_survives : forall (g : graph) (roots C : list nat),
  (forall v, In v C -> exists u, In u C /\ In v (succs g u)) ->
  forall fuel live, (forall v, In v C -> In v live) -> forall v, In v C -> In v (reclaim fuel g roots live).
Proof. exact cycle_survives. Qed.
Print Assumptions C19_cycle_survives.

(* T3: whatever the caller still references (transitively) is kept *)
Theorem C19_rooted_survives : forall (g : graph) (roots S : list nat),
  (forall v, In v S -> In v roots \/ exists u, In u S /\ In v (succs g u)) ->
  forall fuel live, (forall v, In v S -> In v live) -> forall v, In v S -> In v (reclaim fuel g roots live).
Proof. exact rooted_survives. Qed.
Print Assumptions C19_rooted_survives.

(* T4: the COMPLETE characterisation of what reference counting keeps alive: a node survives exactly when it belongs to a supported
   set - every member referenced from outside (a root: something the caller still holds) or by another member.  Supported sets are
   what is reachable from the roots, and reference cycles with whatever hangs from them; nothing else survives. *)
Theorem C19_survivors_are_the_greatest_supported_set : forall (g : graph) (roots : list nat) (v : nat),
  In v (survivors g roots) <-> exists S, supported g roots S /\ In v S.
Proof. exact survivors_are_the_greatest_supported_set. Qed.
Print Assumptions C19_survivors_are_the_greatest_supported_set.

(* T5: once the caller holds nothing, a call keeps tensors alive exactly when the references it created contain a supported set *)
Theorem C19_nothing_survives_iff_no_supported_set : forall (g : graph),
  survivors g [] = [] <-> forall S, supported g [] S -> S = [].
Proof. exact nothing_survives_iff_no_supported_set. Qed.
Print Assumptions C19_nothing_survives_iff_no_supported_set.

(* non-vacuity: a two-cycle with a tail is supported without roots; a chain is not *)
Example C19_cycle_is_supported : supported [(0, [1]); (1, [0; 2]); (2, [])] [] [0; 1; 2].
Proof.
intros v Hv; cbn in Hv. destruct Hv as [<-|[<-|[<-|[]]]]; (split; [cbn; tauto|right]).
- exists 1; split; cbn; tauto.
- exists 0; split; cbn; tauto.
- exists 1; split; cbn; tauto.
Qed.
Example C19_chain_is_reclaimed : survivors [(0, [1]); (1, [2]); (2, [])] [] = [].
Proof. reflexivity. Qed.

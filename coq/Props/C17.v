(* C17 — jac and hess are the true Jacobian and Hessian as differentiable operators. *)
From mathcomp Require Import all_ssreflect all_algebra.
From XV Require Import Base.Ops Base.Deriv Model.ExplicitRK Model.Quad Proofs.ExprDeriv Proofs.JacAlgebra Proofs.LinopSound Model.LinopExpr.
Import GRing.Theory.
Local Open Scope ring_scope.

(* T1: the symbolic Jacobian used by the executable model is the Jacobian: D (f(y)) = sum_j (df/dy_j) D y_j
   for any field and any derivation *)
Theorem C17_jacobian_is_derivative : forall (F : fieldType) (D : derivation F) (e : fexp) (t : F) (ys : seq F),
  D t = 0 ->
  D (feval (FieldOps F) e t ys) = \sum_(j < size ys) feval (FieldOps F) (dfexp j e) t ys * D (nth 0 ys j).
Proof. exact dfexp_correct. Qed.
Print Assumptions C17_jacobian_is_derivative.

(* T2: mixed second partials commute: the Hessian is symmetric, so the Hermitian shortcut rmv = mv is sound *)
Theorem C17_hess_symmetric : forall (F : fieldType) (e : fexp) (t : F) (ys : seq F) i j,
  feval (FieldOps F) (dfexp i (dfexp j e)) t ys = feval (FieldOps F) (dfexp j (dfexp i e)) t ys.
Proof. exact hess_symmetric. Qed.
Print Assumptions C17_hess_symmetric.

(* T3: rmv (plain backward, J^T g) and mv (double-backward trick) are adjoint: <g, J u> = <J^T g, u> *)
Theorem C17_mv_rmv_adjoint : forall (R : comRingType) m n (J : 'M[R]_(m, n)) (u : 'cV[R]_n) (g : 'cV[R]_m),
  \tr (g^T *m (J *m u)) = \tr ((J^T *m g)^T *m u).
Proof. exact jac_mv_rmv_adjoint. Qed.
Print Assumptions C17_mv_rmv_adjoint.

(* T4: a Jacobian operator defines _mv and _rmv only; by C11 (products_sound for a leaf with rmv) its
   mm, rmm, fullmatrix and .H are consistent with the same matrix *)
Theorem C17_operator_products : forall (R : comRingType) (cj : {rmorphism R -> R}), involutive cj ->
  forall n (M : nat -> 'M[R]_n) r (X : 'M[R]_(n, r)),
  let e := Leaf 0 (mkCaps true false false false) false in
  [/\ tsem cj M (mv_ e TX) X = M 0%N *m X, tsem cj M (rmv_ e TX) X = adjn cj (M 0%N) *m X,
      tsem cj M (mm_ e TX) X = M 0%N *m X, tsem cj M (rmm_ e TX) X = adjn cj (M 0%N) *m X &
      tsem cj M (full_ e) (1%:M : 'M[R]_n) = M 0%N].
Proof. by move=> R cj cjK n M r X e; apply: (@products_sound R cj cjK n M e). Qed.
Print Assumptions C17_operator_products.

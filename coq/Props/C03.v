(* C03 — rootfinder / equilibrium / minimize return a point meeting the stopping test. *)
From Coq Require Import List.
From mathcomp Require Import all_ssreflect all_algebra.
From XV Require Import Base.Ops Model.RootLoop Proofs.RootLoopProofs Proofs.BroydenAlgebra.
Import GRing.Theory.
Local Open Scope ring_scope.

(* T1: a silent return hands back the very iterate on which the stopping test succeeded (the test
   was evaluated on func of that point), or an exact root.  For ANY carrier, residual function,
   quasi-Newton strategy, tolerance setting and iteration budget.  (False before fix F1: the loop
   returned the iterate before; F19: an exact root met with a zero step raised instead.) *)
Theorem C03_nonlin_silent_meets_tol :
  forall T J (o : ops T) func (jsolve : J -> list T -> list T) jupdate f_tol f_rtol x_tol x_rtol f0_norm maxiter x0 j0 r vs,
  nonlin_solver o func jsolve jupdate f_tol f_rtol x_tol x_rtol f0_norm maxiter x0 j0 = (Converged r, vs) ->
  (exists pre v, vs = (pre ++ [:: v])%list /\ v_x v = r /\
                 check o f_tol f_rtol x_tol x_rtol f0_norm r (func r) (v_dx v) = true)
  \/ oeqb o (vnorm o (func r)) (o0 o) = true.
Proof. intros; eapply nonlin_silent_meets_tol; eassumption. Qed.
Print Assumptions C03_nonlin_silent_meets_tol.

Theorem C03_check_spec : forall T (o : ops T) f_tol f_rtol x_tol x_rtol f0_norm x y dx,
  check o f_tol f_rtol x_tol x_rtol f0_norm x y dx = true ->
  oltb o (vnorm o dx) x_tol = true /\ oltb o (vnorm o dx) (omul o x_rtol (vnorm o x)) = true /\
  oltb o (vnorm o y) f_tol = true /\ oltb o (vnorm o y) (omul o f_rtol f0_norm) = true.
Proof. intros; eapply check_spec; eassumption. Qed.
Print Assumptions C03_check_spec.

(* T2: on the warning path the returned point is the initial point or a visited iterate *)
Theorem C03_warn_returns_visited :
  forall T J (o : ops T) func (jsolve : J -> list T -> list T) jupdate f_tol f_rtol x_tol x_rtol f0_norm fuel x y ynorm j bx bn b vs,
  loop o func jsolve jupdate f_tol f_rtol x_tol x_rtol f0_norm fuel x y ynorm j bx bn = (Exhausted b, vs) ->
  b = bx \/ exists v, List.In v vs /\ v_x v = b.
Proof. intros; eapply loop_warn_returns_visited; eassumption. Qed.
Print Assumptions C03_warn_returns_visited.

Theorem C03_evaluations_bounded :
  forall T J (o : ops T) func (jsolve : J -> list T -> list T) jupdate f_tol f_rtol x_tol x_rtol f0_norm fuel x y ynorm j bx bn,
  (length (snd (loop o func jsolve jupdate f_tol f_rtol x_tol x_rtol f0_norm fuel x y ynorm j bx bn)) <= fuel)%coq_nat.
Proof. intros; apply loop_evals_bounded. Qed.
Print Assumptions C03_evaluations_bounded.

(* T3: gd book-keeping *)
Theorem C03_gd_maxiter0 : forall T (o : ops T) fg step gamma f_tol f_rtol x_tol x_rtol x0,
  gd o fg step gamma f_tol f_rtol x_tol x_rtol 0 x0 = (x0, false, nil).
Proof. intros; apply gd_maxiter0. Qed.
Print Assumptions C03_gd_maxiter0.

Theorem C03_gd_warn_returns_evaluated : forall T (o : ops T) fg step gamma f_tol f_rtol x_tol x_rtol maxiter x0 x calls,
  gd o fg step gamma f_tol f_rtol x_tol x_rtol maxiter x0 = (x, true, calls) -> List.In x calls.
Proof. intros; eapply gd_warn_returns_evaluated; eassumption. Qed.
Print Assumptions C03_gd_warn_returns_evaluated.

(* T4: both Broyden updates satisfy the secant condition G' dy = dx, any size, any field *)
Theorem C03_broyden_secant : forall (F : fieldType) n (G : 'M[F]_n) (dx dy : 'cV[F]_n),
  (dotc (G^T *m dx) dy != 0 ->
     let v := G^T *m dx in (G + (dx - G *m dy) *m ((dotc v dy)^-1 *: v)^T) *m dy = dx) /\
  (dotc dy dy != 0 -> (G + (dx - G *m dy) *m ((dotc dy dy)^-1 *: dy)^T) *m dy = dx).
Proof. by move=> F n G dx dy; split; [apply: broyden1_secant|apply: broyden2_secant]. Qed.
Print Assumptions C03_broyden_secant.

Theorem C03_lowrank_products : forall (F : fieldType) n (alpha : F) m (cs ds : 'I_m -> 'cV[F]_n) v,
  (alpha%:M + \sum_i cs i *m (ds i)^T) *m v = alpha *: v + \sum_i dotc (ds i) v *: cs i /\
  (alpha%:M + \sum_i cs i *m (ds i)^T)^T *m v = alpha *: v + \sum_i dotc (cs i) v *: ds i.
Proof. by move=> F n alpha m cs ds v; split; [apply: lowrank_mv|apply: lowrank_rmv]. Qed.
Print Assumptions C03_lowrank_products.

(* T5: equilibrium is rootfinding of y - f(y) *)
Theorem C03_equilibrium_reduction : forall (F : fieldType) n (y fy : 'cV[F]_n), y - fy = 0 <-> fy = y.
Proof. exact equilibrium_reduction. Qed.
Print Assumptions C03_equilibrium_reduction.

(* C04 — implicit gradients of rootfinder / equilibrium / minimize are exact. *)
From Coq Require Import List.
From mathcomp Require Import all_ssreflect all_algebra.
From XV Require Import Model.Separator Proofs.SeparatorProofs Proofs.RootBackward Proofs.ConjAdjoint.
Import GRing.Theory.
Local Open Scope ring_scope.

(* T1: implicit function theorem, adjoint form: for every tangent of f(y(theta), theta) = 0 the code's
   two steps (solve J^T g = -G; pull g back through theta |-> f(y*, theta)) give <G, dy> = <P^T g, dtheta>;
   any size, any commutative ring *)
Theorem C04_ift_backward_adjoint : forall (R : comRingType) n p (J : 'M[R]_n) (P : 'M[R]_(n, p)) (dy : 'cV[R]_n) (dth : 'cV[R]_p) (G g : 'cV[R]_n),
  J *m dy + P *m dth = 0 -> J^T *m g = - G -> \tr (G^T *m dy) = \tr ((P^T *m g)^T *m dth).
Proof. exact ift_backward_adjoint. Qed.
Print Assumptions C04_ift_backward_adjoint.

(* T2: the gradient is determined by (y*, theta) alone: any two solutions of the backward system give
   the same parameter gradient -- no dependence on the forward method, on y0 or on the backward solver *)
Theorem C04_ift_unique_gradient : forall (R : comUnitRingType) n p (J : 'M[R]_n) (P : 'M[R]_(n, p)) (G g g' : 'cV[R]_n),
  J \in unitmx -> J^T *m g = - G -> J^T *m g' = - G -> P^T *m g = P^T *m g'.
Proof. exact ift_unique_gradient. Qed.
Print Assumptions C04_ift_unique_gradient.

(* T3: tensor / non-tensor separation round-trips (all patterns of length <= 10, by computation) and
   rejects a wrong number of parameters *)
Theorem C04_separator_roundtrip : forall fl, List.In fl (all_upto 10) -> roundtrip_ok fl = true /\ partition_ok fl = true.
Proof. exact separator_roundtrip_upto_10. Qed.
Print Assumptions C04_separator_roundtrip.

Theorem C04_separator_rejects_length : forall A n tidx nidx (ts ns : list A),
  (length ts + length ns)%coq_nat <> n -> reconstruct A n tidx nidx ts ns = None.
Proof. exact separator_rejects_length. Qed.
Print Assumptions C04_separator_rejects_length.

(* T5: the conjugate (complex unknowns) case: solve J^H g = -G, return P^H g; for every tangent of f(y(theta), theta) = 0
   the sesquilinear pairings agree *)
Theorem C04_ift_backward_adjoint_conj : forall (F : fieldType) (cj : {rmorphism F -> F}), involutive cj ->
  forall n p (J : 'M[F]_n) (P : 'M[F]_(n, p)) (dy : 'cV[F]_n) (dth : 'cV[F]_p) (G g : 'cV[F]_n),
  J *m dy + P *m dth = 0 -> map_mx cj J^T *m g = - G ->
  \tr (map_mx cj G^T *m dy) = \tr (map_mx cj (map_mx cj P^T *m g)^T *m dth).
Proof. move=> F cj cjK n p J P dy dth G g; exact: ift_backward_adjoint_conj. Qed.
Print Assumptions C04_ift_backward_adjoint_conj.

(* ---- xitorch/_utils/misc.py:TensorNonTensorSeparator as translated from /repo on this run (Gen/PyMisc.v): for EVERY
   parameter list the split followed by reconstruct_params is the identity (also with the default non-tensor part),
   new tensor arguments land at the tensor positions in order, a wrong number of arguments is rejected.  Statement:
   Proofs/PySeparatorProofs.v, translated_separator_statement. ---- *)
From XV Require Proofs.PySeparatorProofs.
Theorem C04_translated_separator_roundtrip : PySeparatorProofs.translated_separator_statement.
Proof. exact PySeparatorProofs.translated_separator. Qed.
Print Assumptions C04_translated_separator_roundtrip.

(* Rooted (plane) trees, their order / density, elementary weights of a Runge-Kutta tableau
   over Q, and an executable order-condition checker.  The type [tree] with ordered child
   lists IS the set of plane trees; different orderings of the same children give the same
   condition, so enumerating plane trees covers every rooted tree (with harmless repeats). *)
From Coq Require Import QArith List Arith Lia Bool.
Import ListNotations.

Inductive tree := Node (children : list tree).

Fixpoint order (t : tree) : nat :=
  match t with Node l => S (list_sum (map order l)) end.

Fixpoint gamma (t : tree) : positive :=
  match t with
  | Node l => (Pos.of_succ_nat (list_sum (map order l)) * fold_right Pos.mul 1%positive (map gamma l))%positive
  end.

(* --- linear algebra on lists over Q --- *)
Definition dotQ (u v : list Q) : Q := fold_right Qplus 0 (map (fun p => fst p * snd p) (combine u v)).
Definition mvQ (a : list (list Q)) (v : list Q) : list Q := map (fun row => dotQ row v) a.
Definition hadamard (u v : list Q) : list Q := map (fun p => Qred (fst p * snd p)) (combine u v).

(* stage weights: phi(tau) = 1;  phi([t1..tm])_i = prod_k (sum_j a_ij phi(t_k)_j) *)
Fixpoint phi (a : list (list Q)) (t : tree) : list Q :=
  match t with
  | Node l => fold_right hadamard (map (fun _ => 1) a) (map (fun c => mvQ a (phi a c)) l)
  end.

Definition weight (a : list (list Q)) (b : list Q) (t : tree) : Q := dotQ b (phi a t).

(* --- enumeration of all plane trees of a given order --- *)
Fixpoint forests (T : nat -> list tree) (fuel n : nat) : list (list tree) :=
  match n with
  | O => [[]]
  | _ => match fuel with
         | O => []
         | S f => flat_map (fun k => flat_map (fun t => map (cons t) (forests T f (n - k))) (T k)) (seq 1%nat n)
         end
  end.

Fixpoint trees (fuel n : nat) : list tree :=
  match fuel with
  | O => []
  | S f => match n with
           | O => []
           | S m => map Node (forests (trees f) m m)
           end
  end.

Definition trees_of_order (n : nat) : list tree := trees n n.
Definition trees_upto (p : nat) : list tree := flat_map trees_of_order (seq 1%nat p).

(* --- the checker --- *)
Definition cond_holds (a : list (list Q)) (b : list Q) (t : tree) : bool :=
  Qeq_bool (weight a b t) (1 # gamma t).
Definition check_order (p : nat) (a : list (list Q)) (b : list Q) : bool :=
  forallb (cond_holds a b) (trees_upto p).
(* error-estimator weights annihilate every tree up to order p *)
Definition annihilates (p : nat) (a : list (list Q)) (e : list Q) : bool :=
  forallb (fun t => Qeq_bool (weight a e t) 0) (trees_upto p).

(* tableau shape facts *)
Definition row_sums_ok (a : list (list Q)) (c : list Q) : bool :=
  forallb (fun p => Qeq_bool (fold_right Qplus 0 (fst p)) (snd p)) (combine a c) &&
  Nat.eqb (length a) (length c).
Fixpoint strictly_lower (i : nat) (a : list (list Q)) : bool :=
  match a with
  | [] => true
  | row :: r => forallb (fun x => Qeq_bool x 0) (skipn i row) && strictly_lower (S i) r
  end.

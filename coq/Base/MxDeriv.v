(* A derivation lifted entrywise to matrices: the algebra behind every backward pass. *)
From mathcomp Require Import all_ssreflect all_algebra.
From XV Require Import Base.Deriv.
Set Implicit Arguments.
Unset Strict Implicit.
Unset Printing Implicit Defensive.
Import GRing.Theory.
Local Open Scope ring_scope.

Section MxDeriv.
Variable R : comRingType.
Variable D : derivation R.

Definition dmx m n (A : 'M[R]_(m, n)) : 'M[R]_(m, n) := map_mx D A.

Lemma dmxD m n (A B : 'M[R]_(m, n)) : dmx (A + B) = dmx A + dmx B.
Proof. by apply/matrixP=> i j; rewrite !mxE derD. Qed.
Lemma dmxN m n (A : 'M[R]_(m, n)) : dmx (- A) = - dmx A.
Proof. by apply/matrixP=> i j; rewrite !mxE derN. Qed.
Lemma dmxB m n (A B : 'M[R]_(m, n)) : dmx (A - B) = dmx A - dmx B.
Proof. by rewrite dmxD dmxN. Qed.

(* Leibniz rule for the matrix product *)
Lemma dmxM m n p (A : 'M[R]_(m, n)) (B : 'M[R]_(n, p)) : dmx (A *m B) = dmx A *m B + A *m dmx B.
Proof.
apply/matrixP=> i j; rewrite !mxE der_sum -big_split /=.
by apply: eq_bigr => k _; rewrite derM !mxE.
Qed.

Lemma dmx_tr m n (A : 'M[R]_(m, n)) : dmx A^T = (dmx A)^T.
Proof. by apply/matrixP=> i j; rewrite !mxE. Qed.

Lemma dmx0 m n : dmx (0 : 'M[R]_(m, n)) = 0.
Proof. by apply/matrixP=> i j; rewrite !mxE der0. Qed.

Lemma dmx_const m n (A : 'M[R]_(m, n)) : (forall i j, D (A i j) = 0) -> dmx A = 0.
Proof. by move=> H; apply/matrixP=> i j; rewrite !mxE H. Qed.

Lemma dmx1 n : dmx (1%:M : 'M[R]_n) = 0.
Proof. by apply/matrixP=> i j; rewrite !mxE; case: (_ == _); rewrite /= ?der1 ?der0. Qed.

Lemma d_trace n (A : 'M[R]_n) : D (\tr A) = \tr (dmx A).
Proof. by rewrite /mxtrace der_sum; apply: eq_bigr => i _; rewrite !mxE. Qed.
End MxDeriv.

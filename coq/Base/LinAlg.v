(* Dense linear algebra on lists over an arithmetic carrier: products, transposes, and
   Gauss-Jordan elimination with partial pivoting (None on a zero pivot column).
   Run at Q (exact specifications) and at PrimFloat (float models). *)
From Coq Require Import List Bool Arith.
Import ListNotations.
From XV Require Import Base.Ops.

Section LinAlg.
  Context {T : Type} (o : ops T).
  Definition mat := list (list T).

  Definition mrow0 (n : nat) : list T := repeat (o0 o) n.
  Fixpoint transpose_aux (n : nat) (m : mat) : mat :=
    match n with
    | O => []
    | S k => map (fun r => hd (o0 o) r) m :: transpose_aux k (map (@tl T) m)
    end.
  Definition transpose (m : mat) : mat :=
    match m with [] => [] | r :: _ => transpose_aux (length r) m end.
  Definition mvec (m : mat) (v : list T) : list T := map (fun r => vdot o r v) m.
  Definition mmul (a b : mat) : mat :=
    let bt := transpose b in map (fun r => map (fun c => vdot o r c) bt) a.
  Definition madd (a b : mat) : mat := map (fun p => vadd o (fst p) (snd p)) (combine a b).
  Definition msub (a b : mat) : mat := map (fun p => vsub o (fst p) (snd p)) (combine a b).
  Definition mscale (s : T) (a : mat) : mat := map (vscale o s) a.
  Fixpoint identity_rows (n i : nat) : mat :=
    match i with
    | O => []
    | S k => identity_rows n k ++ [map (fun j => if Nat.eqb j k then o1 o else o0 o) (seq 0 n)]
    end.
  Definition identity (n : nat) : mat := identity_rows n n.

  (* --- Gauss-Jordan on the augmented matrix [A | B] --- *)
  Definition absv (x : T) : T := oabs o x.
  (* index (relative to the given list) of the row with the largest |entry| in column c *)
  Fixpoint argmax_col (c : nat) (rows : mat) (i : nat) (best : nat) (bestv : T) : nat :=
    match rows with
    | [] => best
    | r :: rest => let v := absv (nth c r (o0 o)) in
                   if oltb o bestv v then argmax_col c rest (S i) i v
                   else argmax_col c rest (S i) best bestv
    end.
  Fixpoint swap_first (k : nat) (rows : mat) : mat :=     (* bring row k to the front *)
    match rows with
    | [] => []
    | r0 :: rest => match k with
                    | O => rows
                    | S j => match nth_error rest j with
                             | Some rk => rk :: (firstn j rest ++ r0 :: skipn (S j) rest)
                             | None => rows
                             end
                    end
    end.
  Definition row_axpy (a : T) (x y : list T) : list T := (* y - a x *)
    vsub o y (vscale o a x).

  (* one elimination step at column c, with [done] = rows already reduced (above) *)
  Fixpoint gj (fuel c : nat) (done todo : mat) : option mat :=
    match fuel with
    | O => Some (done ++ todo)
    | S f =>
        match todo with
        | [] => Some done
        | r0 :: _ =>
            let k := argmax_col c todo 0 0 (absv (nth c r0 (o0 o))) in
            match swap_first k todo with
            | [] => Some done
            | p :: rest =>
                let piv := nth c p (o0 o) in
                if oeqb o piv (o0 o) then None
                else
                  let pn := map (fun x => odiv o x piv) p in
                  let elim := fun r => row_axpy (nth c r (o0 o)) pn r in
                  gj f (S c) (map elim done ++ [pn]) (map elim rest)
            end
        end
    end.

  (* solve A X = B *)
  Definition solve (a b : mat) : option mat :=
    let n := length a in
    match gj n 0 [] (map (fun p => fst p ++ snd p) (combine a b)) with
    | Some aug => Some (map (skipn n) aug)
    | None => None
    end.
  Definition solve_vec (a : mat) (b : list T) : option (list T) :=
    match solve a (map (fun x => [x]) b) with
    | Some x => Some (map (fun r => hd (o0 o) r) x)
    | None => None
    end.
End LinAlg.

(* Gallina counterparts of the Python built-ins that the translated plumbing code of xitorch uses
   (tools/translate_py.py emits terms over this library into Gen/Py*.v).
   Python ints are Z; lists are lists; dicts are insertion-ordered association lists without
   repeated keys; exceptions are the [Raise] case of the result monad, identified by the class name.
   Opaque Python objects (tensors, callables, strings used as method names, None, ...) are [obj]. *)
From Coq Require Import ZArith List Bool.
From Coq Require String Ascii.
Import String.StringSyntax.
Delimit Scope string_scope with string.
Import ListNotations.
Open Scope Z_scope.
Notation string := String.string.
Local Open Scope string_scope.
Local Open Scope list_scope.
Local Open Scope Z_scope.

Inductive res (A : Type) : Type :=
| Ok (a : A)
| Raise (e : string).
Arguments Ok {A} a.
Arguments Raise {A} e%string.

Definition bind {A B} (m : res A) (f : A -> res B) : res B :=
  match m with Ok a => f a | Raise e => Raise e end.
Notation "x <- m ;; k" := (bind m (fun x => k)) (at level 61, m at next level, right associativity).
Notation "' p <- m ;; k" := (bind m (fun p => k)) (at level 61, p pattern, m at next level, right associativity).

(* ---- opaque objects ---- *)
Inductive obj :=
| ONone
| OStr (s : string)
| OCall (id : Z)                       (* any callable *)
| OTensor (id : Z) (requires_grad : bool)
| OTok (id : Z).                       (* any other object, known by its identity *)

Definition is_str (o : obj) : bool := match o with OStr _ => true | _ => false end.
Definition is_callable (o : obj) : bool := match o with OCall _ => true | _ => false end.
Definition is_none (o : obj) : bool := match o with ONone => true | _ => false end.
Definition is_tensor (o : obj) : bool := match o with OTensor _ _ => true | _ => false end.
Definition obj_requires_grad (o : obj) : res bool :=
  match o with OTensor _ r => Ok r | _ => Raise "AttributeError" end.
Definition obj_str (o : obj) : res string :=
  match o with OStr s => Ok s | _ => Raise "AttributeError" end.
(* id(o): distinct objects of the model carry distinct identities by construction of the cases *)
Definition obj_id (o : obj) : Z :=
  match o with
  | ONone => -1 | OStr _ => -2
  | OCall i => 3 * i | OTensor i _ => 3 * i + 1 | OTok i => 3 * i + 2
  end.

(* ---- str.lower() on ASCII ---- *)
Definition lower_ascii (c : Ascii.ascii) : Ascii.ascii :=
  let n := Ascii.nat_of_ascii c in
  if ((65 <=? n) && (n <=? 90))%nat then Ascii.ascii_of_nat (n + 32) else c.
Fixpoint str_lower (s : string) : string :=
  match s with
  | String.EmptyString => String.EmptyString
  | String.String c r => String.String (lower_ascii c) (str_lower r)
  end.

(* ---- lists ---- *)
Definition py_len {A} (l : list A) : Z := Z.of_nat (length l).
(* [x] * k *)
Definition py_repeat {A} (l : list A) (k : Z) : list A := concat (repeat l (Z.to_nat k)).
Definition py_range (n : Z) : list Z := map Z.of_nat (seq 0 (Z.to_nat n)).
Definition py_enumerate {A} (l : list A) : list (Z * A) := combine (py_range (py_len l)) l.
(* l[i] with Python's negative indices *)
Definition list_get {A} (l : list A) (i : Z) : res A :=
  let n := py_len l in
  let j := if i <? 0 then i + n else i in
  if (j <? 0) || (n <=? j) then Raise "IndexError"
  else match nth_error l (Z.to_nat j) with Some a => Ok a | None => Raise "IndexError" end.
Fixpoint set_nth {A} (l : list A) (k : nat) (v : A) : list A :=
  match l, k with
  | [], _ => []
  | _ :: r, O => v :: r
  | x :: r, S k' => x :: set_nth r k' v
  end.
(* l[i] = v *)
Definition list_set {A} (l : list A) (i : Z) (v : A) : res (list A) :=
  let n := py_len l in
  let j := if i <? 0 then i + n else i in
  if (j <? 0) || (n <=? j) then Raise "IndexError" else Ok (set_nth l (Z.to_nat j) v).
Definition max_list1 (x : Z) (l : list Z) : Z := fold_left Z.max l x.
(* max(iterable) *)
Definition py_max (l : list Z) : res Z :=
  match l with [] => Raise "ValueError" | x :: r => Ok (max_list1 x r) end.
(* max( *args): one positional int argument is not iterable *)
Definition py_max_star (l : list Z) : res Z :=
  match l with
  | [] => Raise "TypeError"
  | [_] => Raise "TypeError"
  | x :: r => Ok (max_list1 x r)
  end.
(* zip( *ls): tuples of the i-th elements, as long as the shortest; zip() of nothing is empty *)
Fixpoint heads_tails {A} (ls : list (list A)) : option (list A * list (list A)) :=
  match ls with
  | [] => Some ([], [])
  | [] :: _ => None
  | (x :: r) :: rest =>
      match heads_tails rest with Some (hs, ts) => Some (x :: hs, r :: ts) | None => None end
  end.
Fixpoint zip_star_fuel {A} (fuel : nat) (ls : list (list A)) : list (list A) :=
  match fuel with
  | O => []
  | S f => match heads_tails ls with
           | Some (hs, ts) => hs :: zip_star_fuel f ts
           | None => []
           end
  end.
Definition py_zip_star {A} (ls : list (list A)) : list (list A) :=
  match ls with
  | [] => []
  | l :: _ => zip_star_fuel (length l) ls
  end.
Definition py_zip2 {A B} (a : list A) (b : list B) : list (A * B) := combine a b.
Definition mem_Z (x : Z) (l : list Z) : bool := existsb (Z.eqb x) l.

(* ---- monadic iteration ---- *)
Fixpoint mapM {A B} (f : A -> res B) (l : list A) : res (list B) :=
  match l with
  | [] => Ok []
  | x :: r => y <- f x ;; ys <- mapM f r ;; Ok (y :: ys)
  end.
(* for x in l: st = body st x *)
Fixpoint for_each {A S} (l : list A) (body : S -> A -> res S) (st : S) : res S :=
  match l with
  | [] => Ok st
  | x :: r => st' <- body st x ;; for_each r body st'
  end.

(* ---- dicts (insertion ordered) ---- *)
Section Dict.
  Context {K V : Type} (eqb : K -> K -> bool).
  Definition dict := list (K * V).
  Fixpoint d_find (d : dict) (k : K) : option V :=
    match d with
    | [] => None
    | (k', v) :: r => if eqb k k' then Some v else d_find r k
    end.
  Definition d_mem (d : dict) (k : K) : bool :=
    match d_find d k with Some _ => true | None => false end.
  Definition d_get (d : dict) (k : K) : res V :=
    match d_find d k with Some v => Ok v | None => Raise "KeyError" end.
  (* d[k] = v : an existing key keeps its position, a new key goes last *)
  Fixpoint d_set (d : dict) (k : K) (v : V) : dict :=
    match d with
    | [] => [(k, v)]
    | (k', v') :: r => if eqb k k' then (k, v) :: r else (k', v') :: d_set r k v
    end.
  Fixpoint d_remove (d : dict) (k : K) : dict :=
    match d with
    | [] => []
    | (k', v) :: r => if eqb k k' then r else (k', v) :: d_remove r k
    end.
  (* d.pop(k) : the value and the dict without the key *)
  Definition d_pop (d : dict) (k : K) : res (V * dict) :=
    match d_find d k with Some v => Ok (v, d_remove d k) | None => Raise "KeyError" end.
  (* d.update(e) *)
  Definition d_update (d e : dict) : dict := fold_left (fun acc kv => d_set acc (fst kv) (snd kv)) e d.
End Dict.

(* ---- decidable equality of results (the correspondence drivers compare inside Coq) ---- *)
Definition obj_eqb (a b : obj) : bool :=
  match a, b with
  | ONone, ONone => true
  | OStr s, OStr t => String.eqb s t
  | OCall i, OCall j => Z.eqb i j
  | OTensor i r, OTensor j q => Z.eqb i j && Bool.eqb r q
  | OTok i, OTok j => Z.eqb i j
  | _, _ => false
  end.
Fixpoint list_eqb {A} (e : A -> A -> bool) (a b : list A) : bool :=
  match a, b with
  | [], [] => true
  | x :: r, y :: s => e x y && list_eqb e r s
  | _, _ => false
  end.
Definition prod_eqb {A B} (ea : A -> A -> bool) (eb : B -> B -> bool) (a b : A * B) : bool :=
  ea (fst a) (fst b) && eb (snd a) (snd b).
(* expected: Some value, or None for "raises the exception named e" *)
Definition res_eqb {A} (e : A -> A -> bool) (r : res A) (expected : A + string) : bool :=
  match r, expected with
  | Ok a, inl b => e a b
  | Raise x, inr y => String.eqb x y
  | _, _ => false
  end.

(* l.pop() / l.pop(-1): the last element and the list without it *)
Definition list_pop_last {A} (l : list A) : res (A * list A) :=
  match rev l with
  | [] => Raise "IndexError"
  | x :: r => Ok (x, rev r)
  end.

(* l.index(v) on a list of ints: the first position, or None for ValueError *)
Fixpoint list_index_from (l : list Z) (v : Z) (i : Z) : option Z :=
  match l with
  | [] => None
  | x :: r => if Z.eqb x v then Some i else list_index_from r v (i + 1)
  end.
Definition list_index (l : list Z) (v : Z) : option Z := list_index_from l v 0.

(* torch.numel of a tensor modelled by its shape *)
Definition py_numel (shape : list Z) : Z := fold_left Z.mul shape 1.

(* `o in d` for a dict with string keys and an object that may be a string (any other object is simply not a key) *)
Definition obj_in_dict {V} (d : list (string * V)) (o : obj) : bool :=
  match o with OStr s => d_mem String.eqb d s | _ => false end.

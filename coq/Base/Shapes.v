(* xitorch/_utils/bcast.py: normalize_bcast_dims / get_bcasted_dims, and the broadcasting rule they
   implement on compatible shapes. *)
From Coq Require Import List Arith Lia.
Import ListNotations.

Definition pad (n : nat) (s : list nat) : list nat := repeat 1 (n - length s) ++ s.
Definition maxlen (shapes : list (list nat)) : nat := list_max (map (@length nat) shapes).
(* the per-axis maximum over the left-padded shapes *)
Definition get_bcasted_dims (shapes : list (list nat)) : list nat :=
  let n := maxlen shapes in
  map (fun i => list_max (map (fun s => nth i (pad n s) 1) shapes)) (seq 0 n).

Definition bcast2 (a b : list nat) : list nat := get_bcasted_dims [a; b].

Lemma pad_length n s : length s <= n -> length (pad n s) = n.
Proof. intros H. unfold pad. rewrite app_length, repeat_length. lia. Qed.

Theorem bcast_length shapes : length (get_bcasted_dims shapes) = maxlen shapes.
Proof. unfold get_bcasted_dims. rewrite map_length, seq_length. reflexivity. Qed.

Theorem bcast2_comm a b : bcast2 a b = bcast2 b a.
Proof.
  unfold bcast2, get_bcasted_dims, maxlen. cbn [map list_max fold_right].
  rewrite !Nat.max_0_r, (Nat.max_comm (length b)). apply map_ext. intros i.
  rewrite !Nat.max_0_r. apply Nat.max_comm.
Qed.

Theorem bcast2_idem a : bcast2 a a = a.
Proof.
  unfold bcast2, get_bcasted_dims, maxlen. cbn [map list_max fold_right].
  rewrite Nat.max_0_r, Nat.max_id. unfold pad. rewrite Nat.sub_diag. cbn [repeat app].
  apply nth_ext with (d := 0) (d' := 0); [rewrite map_length, seq_length; reflexivity|].
  intros i Hi. rewrite map_length, seq_length in Hi.
  rewrite (nth_indep _ 0 (Nat.max (nth 0 a 1) (Nat.max (nth 0 a 1) 0))) by (rewrite map_length, seq_length; exact Hi).
  rewrite (map_nth (fun i => Nat.max (nth i a 1) (Nat.max (nth i a 1) 0)) (seq 0 (length a)) 0 i).
  rewrite seq_nth by exact Hi. cbn. rewrite Nat.max_0_r, Nat.max_id. apply nth_indep. exact Hi.
Qed.

(* the numpy / torch rule: aligned from the right, a dimension of size 1 stretches *)
Definition compat (x y : nat) : Prop := x = y \/ x = 1 \/ y = 1.
Definition stretch (x y : nat) : nat := if Nat.eqb x 1 then y else x.

Theorem bcast2_spec a b i : i < Nat.max (length a) (length b) ->
  let n := Nat.max (length a) (length b) in
  compat (nth i (pad n a) 1) (nth i (pad n b) 1) -> 1 <= nth i (pad n a) 1 -> 1 <= nth i (pad n b) 1 ->
  nth i (bcast2 a b) 0 = stretch (nth i (pad n a) 1) (nth i (pad n b) 1).
Proof.
  intros Hi n Hc Ha Hb. unfold bcast2, get_bcasted_dims, maxlen. cbn [map list_max fold_right].
  rewrite !Nat.max_0_r. fold n.
  rewrite (nth_indep _ 0 ((fun i => Nat.max (nth i (pad n a) 1) (Nat.max (nth i (pad n b) 1) 0)) 0))
    by (rewrite map_length, seq_length; exact Hi).
  rewrite (map_nth (fun i => Nat.max (nth i (pad n a) 1) (Nat.max (nth i (pad n b) 1) 0))).
  rewrite seq_nth by exact Hi. cbn [plus]. rewrite Nat.max_0_r. unfold stretch.
  destruct (Nat.eqb_spec (nth i (pad n a) 1) 1) as [E|E]; [rewrite E; lia|].
  destruct Hc as [Hc|[Hc|Hc]]; [rewrite Hc; lia|contradiction|rewrite Hc; lia].
Qed.

(* Arithmetic carriers.  Numerical models are written once over [ops T]; they are run at
   PrimFloat (IEEE binary64, evaluated by vm_compute) and reasoned about at Q / R. *)
From Coq Require Import QArith Qabs List Bool ZArith PrimFloat Uint63.
Import ListNotations.

Record ops (T : Type) := mkOps {
  o0 : T; o1 : T;
  oadd : T -> T -> T; osub : T -> T -> T; omul : T -> T -> T; odiv : T -> T -> T;
  oopp : T -> T; oabs : T -> T; osqrt : T -> T;
  oltb : T -> T -> bool; oleb : T -> T -> bool; oeqb : T -> T -> bool;
  ofZ : Z -> T
}.
Arguments o0 {T}. Arguments o1 {T}. Arguments oadd {T}. Arguments osub {T}. Arguments omul {T}.
Arguments odiv {T}. Arguments oopp {T}. Arguments oabs {T}. Arguments osqrt {T}.
Arguments oltb {T}. Arguments oleb {T}. Arguments oeqb {T}. Arguments ofZ {T}.

Definition ofQ {T} (o : ops T) (q : Q) : T :=
  if Pos.eqb (Qden q) 1 then ofZ o (Qnum q) else odiv o (ofZ o (Qnum q)) (ofZ o (Zpos (Qden q))).

(* ---- IEEE binary64 ---- *)
Definition float_of_Z (z : Z) : float :=
  match z with
  | Z0 => 0%float
  | Zpos p => PrimFloat.of_uint63 (Uint63.of_Z (Zpos p))
  | Zneg p => PrimFloat.opp (PrimFloat.of_uint63 (Uint63.of_Z (Zpos p)))
  end.

Definition Fops : ops float := {|
  o0 := 0%float; o1 := 1%float;
  oadd := PrimFloat.add; osub := PrimFloat.sub; omul := PrimFloat.mul; odiv := PrimFloat.div;
  oopp := PrimFloat.opp; oabs := PrimFloat.abs; osqrt := PrimFloat.sqrt;
  oltb := PrimFloat.ltb; oleb := PrimFloat.leb; oeqb := PrimFloat.eqb;
  ofZ := float_of_Z |}.

(* ---- exact rationals (kept reduced); no square root: models that need norms are only
        run at Fops; sqrt here is a placeholder that is never relied upon in a theorem ---- *)
Definition Qops : ops Q := {|
  o0 := 0%Q; o1 := 1%Q;
  oadd := fun a b => Qred (a + b); osub := fun a b => Qred (a - b);
  omul := fun a b => Qred (a * b); odiv := fun a b => Qred (a / b);
  oopp := fun a => Qred (- a); oabs := fun a => Qred (Qabs a); osqrt := fun a => a;
  oltb := fun a b => match a ?= b with Lt => true | _ => false end;
  oleb := fun a b => match a ?= b with Gt => false | _ => true end;
  oeqb := Qeq_bool;
  ofZ := fun z => inject_Z z |}.

(* ---- vectors as lists ---- *)
Section Vec.
  Context {T : Type} (o : ops T).
  Fixpoint vmap2 (f : T -> T -> T) (u v : list T) : list T :=
    match u, v with
    | x :: r, y :: s => f x y :: vmap2 f r s
    | _, _ => []
    end.
  Definition vadd := vmap2 (oadd o).
  Definition vsub := vmap2 (osub o).
  Definition vscale (a : T) (v : list T) : list T := map (omul o a) v.
  Definition vopp (v : list T) : list T := map (oopp o) v.
  (* left-to-right sum, as a sequential loop would do *)
  Definition vsum (v : list T) : T := fold_left (oadd o) v (o0 o).
  Definition vdot (u v : list T) : T := vsum (vmap2 (omul o) u v).
  Definition vnorm (v : list T) : T := osqrt o (vdot v v).
  Definition vzeros (n : nat) : list T := repeat (o0 o) n.
End Vec.

(* comparisons on floats used by the correspondence harnesses *)
Definition fclose (rtol atol : float) (a b : float) : bool :=
  PrimFloat.leb (PrimFloat.abs (PrimFloat.sub a b))
                (PrimFloat.add atol (PrimFloat.mul rtol (PrimFloat.abs b)))
  || (PrimFloat.eqb a b).
Fixpoint vclose (rtol atol : float) (u v : list float) : bool :=
  match u, v with
  | [], [] => true
  | x :: r, y :: s => fclose rtol atol x y && vclose rtol atol r s
  | _, _ => false
  end.
Fixpoint vbits_eq (u v : list float) : bool :=   (* bit-for-bit, nan <> nan *)
  match u, v with
  | [], [] => true
  | x :: r, y :: s => PrimFloat.eqb x y && vbits_eq r s
  | _, _ => false
  end.

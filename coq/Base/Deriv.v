(* Derivations on a commutative ring: the algebraic content of "differentiate w.r.t. any
   parameter".  A backward-pass identity proved for an arbitrary derivation holds for every
   differentiable parametrisation, and (applied twice) at second order. *)
From mathcomp Require Import all_ssreflect all_algebra.
Set Implicit Arguments.
Unset Strict Implicit.
Unset Printing Implicit Defensive.
Import GRing.Theory.
Local Open Scope ring_scope.

Record derivation (R : comRingType) := Derivation {
  dfun :> R -> R;
  derD : forall a b, dfun (a + b) = dfun a + dfun b;
  derM : forall a b, dfun (a * b) = dfun a * b + a * dfun b
}.

Section DerivTheory.
Variable R : comRingType.
Variable D : derivation R.

Lemma der_idem (x : R) : x = x + x -> x = 0.
Proof. by move=> H; apply/eqP; rewrite -(inj_eq (addrI x)) addr0 -H. Qed.

Lemma der0 : D 0 = 0.
Proof. by apply: der_idem; rewrite -derD addr0. Qed.

Lemma der1 : D 1 = 0.
Proof. by apply: der_idem; rewrite -{2}[D 1]mulr1 -{3}[D 1]mul1r -derM mulr1. Qed.

Lemma derN a : D (- a) = - D a.
Proof.
apply/eqP; rewrite -addr_eq0 -derD; apply/eqP.
by rewrite addNr der0.
Qed.

Lemma derB a b : D (a - b) = D a - D b.
Proof. by rewrite derD derN. Qed.

Lemma der_sum (I : Type) (r : seq I) (P : pred I) (f : I -> R) :
  D (\sum_(i <- r | P i) f i) = \sum_(i <- r | P i) D (f i).
Proof. by elim/big_rec2: _ => [|i y x _ <-]; rewrite ?der0 ?derD. Qed.

Lemma der_nat n : D n%:R = 0.
Proof. by elim: n => [|n IH]; rewrite ?der0 // -addn1 natrD derD IH der1 addr0. Qed.
End DerivTheory.

Section DerivField.
Variable F : fieldType.
Variable D : derivation F.

Lemma derV a : a != 0 -> D a^-1 = - D a / a ^+ 2.
Proof.
move=> a0.
have H : D a * a^-1 + a * D a^-1 = 0 by rewrite -derM divff // der1.
apply: (mulfI a0).
rewrite -[a * D a^-1](addKr (D a * a^-1)) H addr0.
by rewrite expr2 invfM [a * _]mulrC -!mulrA mulVf // mulr1 mulNr.
Qed.

Lemma der_div a b : b != 0 -> D (a / b) = D a / b - a * D b / b ^+ 2.
Proof. by move=> b0; rewrite derM derV // mulrA mulrN mulNr. Qed.
End DerivField.

(* Complex numbers over IEEE binary64 as an [ops] instance, for the models whose code conjugates.
   Products and quotients use the textbook formulas (the implementation's BLAS may fuse or reorder:
   complex ties are compared with a tolerance, never bit for bit).  [oabs] returns (|z|, 0); the order
   comparisons look at real parts only and are used on such real-embedded values (norms, pivots). *)
From Coq Require Import List Bool ZArith PrimFloat.
Import ListNotations.
From XV Require Import Base.Ops.

Definition cplx := (float * float)%type.
Definition cre (z : cplx) := fst z.
Definition cim (z : cplx) := snd z.
Definition cconj (z : cplx) : cplx := (fst z, PrimFloat.opp (snd z)).
Definition cadd (a b : cplx) : cplx := (PrimFloat.add (fst a) (fst b), PrimFloat.add (snd a) (snd b)).
Definition csub (a b : cplx) : cplx := (PrimFloat.sub (fst a) (fst b), PrimFloat.sub (snd a) (snd b)).
Definition cmul (a b : cplx) : cplx :=
  (PrimFloat.sub (PrimFloat.mul (fst a) (fst b)) (PrimFloat.mul (snd a) (snd b)),
   PrimFloat.add (PrimFloat.mul (fst a) (snd b)) (PrimFloat.mul (snd a) (fst b))).
Definition cnorm2 (a : cplx) : float := PrimFloat.add (PrimFloat.mul (fst a) (fst a)) (PrimFloat.mul (snd a) (snd a)).
Definition cdiv (a b : cplx) : cplx :=
  let d := cnorm2 b in let n := cmul a (cconj b) in (PrimFloat.div (fst n) d, PrimFloat.div (snd n) d).
Definition cabs (a : cplx) : cplx := (PrimFloat.sqrt (cnorm2 a), 0%float).

Definition Cops : ops cplx := {|
  o0 := (0%float, 0%float); o1 := (1%float, 0%float);
  oadd := cadd; osub := csub; omul := cmul; odiv := cdiv;
  oopp := fun a => (PrimFloat.opp (fst a), PrimFloat.opp (snd a));
  oabs := cabs;
  osqrt := fun a => (PrimFloat.sqrt (fst a), 0%float);      (* real-embedded arguments only *)
  oltb := fun a b => PrimFloat.ltb (fst a) (fst b);
  oleb := fun a b => PrimFloat.leb (fst a) (fst b);
  oeqb := fun a b => PrimFloat.eqb (fst a) (fst b) && PrimFloat.eqb (snd a) (snd b);
  ofZ := fun z => (float_of_Z z, 0%float) |}.

(* Algebra behind symeig / svd (C05): Cholesky-reduced generalised eigenproblem, the M-orthonormalising
   QR of davidson, Rayleigh-Ritz pairs, exactness on the full subspace, and the svd factor identities.
   MathComp matrices of arbitrary size over any field with an involutive conjugation. *)
From mathcomp Require Import all_ssreflect all_algebra.
Set Implicit Arguments.
Unset Strict Implicit.
Unset Printing Implicit Defensive.
Import GRing.Theory.
Local Open Scope ring_scope.

Section Herm.
Variable F : fieldType.
Variable cj : {rmorphism F -> F}.
Hypothesis cjK : involutive cj.
Local Notation "A ^H" := (map_mx cj A^T) (at level 2, format "A ^H").

Lemma adjK m n (A : 'M[F]_(m, n)) : (A^H)^H = A.
Proof. by apply/matrixP=> i j; rewrite !mxE cjK. Qed.
Lemma adjM m n p (A : 'M[F]_(m, n)) (B : 'M[F]_(n, p)) : (A *m B)^H = B^H *m A^H.
Proof. by rewrite trmx_mul map_mxM. Qed.
Lemma adj1 n : (1%:M : 'M[F]_n)^H = 1%:M.
Proof. by rewrite trmx1 map_mx1. Qed.

(* ---------- exacteig with M ---------- *)
Section Exact.
Variables n k : nat.
Variables (A M L Linv : 'M[F]_n) (Y : 'M[F]_(n, k)) (e : 'rV[F]_k).
Hypothesis HM : L *m L^H = M.
Hypothesis HL : Linv *m L = 1%:M.
Hypothesis HR : L *m Linv = 1%:M.
Hypothesis Heig : (Linv *m (A *m Linv^H)) *m Y = Y *m diag_mx e.   (* the kept columns of eigh(A2) *)
Hypothesis Horth : Y^H *m Y = 1%:M.

Let X := Linv^H *m Y.

Lemma LH_LinvH : L^H *m Linv^H = 1%:M.
Proof. by rewrite -adjM HL adj1. Qed.

Lemma MX_LY : M *m X = L *m Y.
Proof. by rewrite /X -HM -mulmxA (mulmxA L^H) LH_LinvH mul1mx. Qed.

Theorem exacteig_M_eigen : A *m X = M *m X *m diag_mx e.
Proof.
rewrite MX_LY -mulmxA -Heig /X !mulmxA HR mul1mx. reflexivity.
Qed.

Theorem exacteig_M_orthonormal : X^H *m M *m X = 1%:M.
Proof.
rewrite -mulmxA MX_LY /X adjM adjK -mulmxA (mulmxA Linv) HL mul1mx. exact: Horth.
Qed.
End Exact.

(* ---------- tallqr ---------- *)
Section TallQR.
Variables n g : nat.
Variables (M : 'M[F]_n) (V : 'M[F]_(n, g)) (C Rinv : 'M[F]_g).
Let R := C^H.
Hypothesis HC : C *m C^H = (V^H *m (M *m V))^H.       (* cholesky of VTV^H *)
Hypothesis HMherm : M^H = M.
Hypothesis HRi : Rinv *m R = 1%:M.
Hypothesis HiR : R *m Rinv = 1%:M.
Let Q := V *m Rinv.

Lemma RHR : R^H *m R = V^H *m (M *m V).
Proof. by rewrite /R adjK HC !adjM adjK HMherm mulmxA. Qed.

Theorem tallqr_orthonormal : Q^H *m (M *m Q) = 1%:M.
Proof.
have -> : Q^H *m (M *m Q) = Rinv^H *m (V^H *m (M *m V)) *m Rinv.
  by rewrite /Q adjM !mulmxA.
by rewrite -RHR !mulmxA -adjM HiR adj1 mul1mx HiR.
Qed.

Theorem tallqr_factor : Q *m R = V.
Proof. by rewrite /Q -mulmxA HRi mulmx1. Qed.
End TallQR.

(* ---------- Rayleigh-Ritz ---------- *)
Section Ritz.
Variables n g k : nat.
Variables (A M : 'M[F]_n) (Q : 'M[F]_(n, g)) (c : 'M[F]_(g, k)) (th : 'rV[F]_k).
Hypothesis HQ : Q^H *m (M *m Q) = 1%:M.
Hypothesis HT : (Q^H *m (A *m Q)) *m c = c *m diag_mx th.
Hypothesis Hc : c^H *m c = 1%:M.
Let X := Q *m c.
Let resid := A *m X - M *m X *m diag_mx th.

Theorem ritz_orthonormal : X^H *m (M *m X) = 1%:M.
Proof.
have -> : X^H *m (M *m X) = c^H *m (Q^H *m (M *m Q)) *m c.
  by rewrite /X adjM !mulmxA.
by rewrite HQ mulmx1.
Qed.

(* Galerkin condition: the residual is orthogonal to the search space *)
Theorem ritz_galerkin : Q^H *m resid = 0.
Proof.
rewrite /resid /X mulmxBr.
have -> : Q^H *m (A *m (Q *m c)) = (Q^H *m (A *m Q)) *m c by rewrite !mulmxA.
have -> : Q^H *m (M *m (Q *m c) *m diag_mx th) = (Q^H *m (M *m Q)) *m c *m diag_mx th by rewrite !mulmxA.
by rewrite HT HQ mul1mx subrr.
Qed.
End Ritz.

(* the second exit of davidson: when the search space is the whole space the Ritz pairs are exact *)
Theorem davidson_full_subspace_exact n k (A M Q : 'M[F]_n) (c : 'M[F]_(n, k)) (th : 'rV[F]_k) :
  Q^H *m (M *m Q) = 1%:M -> (Q^H *m (A *m Q)) *m c = c *m diag_mx th ->
  A *m (Q *m c) = M *m (Q *m c) *m diag_mx th.
Proof.
move=> HQ HT.
have uQH : Q^H \in unitmx.
  by case: (mulmx1_unit HQ).
have := ritz_galerkin HQ HT.
move/(congr1 (mulmx (invmx Q^H))); rewrite mulKmx // mulmx0 => /eqP.
by rewrite subr_eq0 => /eqP.
Qed.

(* ---------- svd ---------- *)
Section SVD.
Variables m n k : nat.
Variables (B : 'M[F]_(m, n)) (V : 'M[F]_(n, k)) (s : 'rV[F]_k).
Hypothesis Hs_real : map_mx cj s = s.
Hypothesis Hs_nz : forall i, s 0 i != 0.
Hypothesis Heig : (B^H *m B) *m V = V *m diag_mx (\row_i (s 0 i * s 0 i)).
Hypothesis HV : V^H *m V = 1%:M.
Let sinv : 'rV[F]_k := \row_i (s 0 i)^-1.
Let U := B *m V *m diag_mx sinv.

Lemma diagH (d : 'rV[F]_k) : (diag_mx d)^H = diag_mx (map_mx cj d).
Proof. by rewrite tr_diag_mx map_diag_mx. Qed.
Lemma diagM (d d' : 'rV[F]_k) : diag_mx d *m diag_mx d' = diag_mx (\row_i (d 0 i * d' 0 i)).
Proof.
apply/matrixP=> i j; rewrite mul_diag_mx !mxE; case: eqP => _; by rewrite ?mulr1n ?mulr0n ?mulr0.
Qed.
Lemma sinv_real : map_mx cj sinv = sinv.
Proof.
apply/matrixP=> i j; rewrite !mxE fmorphV; congr (_^-1).
by move/matrixP/(_ 0 j): Hs_real; rewrite !mxE.
Qed.
Lemma sinv_s : diag_mx sinv *m diag_mx s = 1%:M.
Proof.
rewrite diagM -diag_const_mx; congr diag_mx; apply/matrixP=> i j; rewrite !mxE.
by rewrite mulVf.
Qed.

Theorem svd_Av : B *m V = U *m diag_mx s.
Proof. by rewrite /U -mulmxA sinv_s mulmx1. Qed.

Theorem svd_U_orthonormal : U^H *m U = 1%:M.
Proof.
rewrite /U !adjM diagH sinv_real !mulmxA -(mulmxA _ B^H) -(mulmxA _ (B^H *m B)) Heig.
rewrite !mulmxA -(mulmxA _ V^H) HV mulmx1 !diagM -diag_const_mx; congr diag_mx.
by apply/matrixP=> i j; rewrite !mxE (mulrA _^-1) mulVf // mul1r mulfV.
Qed.

Theorem svd_AHu : B^H *m U = V *m diag_mx s.
Proof.
rewrite /U !mulmxA Heig -mulmxA diagM; congr (_ *m diag_mx _).
by apply/matrixP=> i j; rewrite !mxE mulfK // (ord1 i).
Qed.

(* full k: V square and unitary -> U diag(s) V^H = B *)
Theorem svd_reconstruct : V *m V^H = 1%:M -> U *m diag_mx s *m V^H = B.
Proof. by move=> HVV; rewrite -svd_Av -mulmxA HVV mulmx1. Qed.
End SVD.
End Herm.

(* Matrix semantics of the symbolic products of Model/LinopExpr.v and the soundness of the
   dispatch, for every operator expression, every size n, every number of columns r, over any
   commutative ring with an involutive ring morphism (conjugation; identity in the real case). *)
From mathcomp Require Import all_ssreflect all_algebra.
From Coq Require Import ZArith.
From XV Require Import Model.LinopExpr.
Set Implicit Arguments.
Unset Strict Implicit.
Unset Printing Implicit Defensive.
Import GRing.Theory.
Local Open Scope ring_scope.

Section Sound.
Variable R : comRingType.
Variable cj : {rmorphism R -> R}.
Hypothesis cjK : involutive cj.
Variable n : nat.
Variable M : nat -> 'M[R]_n.          (* the matrix each leaf's _mv applies *)

Definition adj m (A : 'M[R]_(m, n)) : 'M[R]_(n, m) := map_mx cj A^T.
Definition adjn (A : 'M[R]_n) : 'M[R]_n := map_mx cj A^T.

Lemma adjnK A : adjn (adjn A) = A.
Proof.
rewrite /adjn map_trmx trmxK -map_mx_comp.
by apply/matrixP=> i j; rewrite !mxE /= cjK.
Qed.
Lemma adjnM A B : adjn (A *m B) = adjn B *m adjn A.
Proof. by rewrite /adjn trmx_mul map_mxM. Qed.
Lemma adjnD A B : adjn (A + B) = adjn A + adjn B.
Proof. by rewrite /adjn linearD /= map_mxD. Qed.
Lemma adjnB A B : adjn (A - B) = adjn A - adjn B.
Proof. by rewrite /adjn linearB /= map_mxB. Qed.

Definition zr (f : Z) : R :=
  match f with
  | Z0 => 0
  | Zpos p => (Pos.to_nat p)%:R
  | Zneg p => - (Pos.to_nat p)%:R
  end.
Lemma cj_zr f : cj (zr f) = zr f.
Proof. by case: f => [|p|p] /=; rewrite ?rmorph0 ?rmorphN ?rmorph_nat. Qed.
Lemma adjnZ f A : adjn (zr f *: A) = zr f *: adjn A.
Proof. by rewrite /adjn linearZ /= map_mxZ cj_zr. Qed.

Fixpoint dm (m : mexp) : 'M[R]_n :=
  match m with
  | MLeaf i => M i
  | MH a => adjn (dm a)
  | MMul a b => dm a *m dm b
  | MAdd a b => dm a + dm b
  | MSub a b => dm a - dm b
  | MScale f a => zr f *: dm a
  end.

Fixpoint denote (e : lexpr) : 'M[R]_n :=
  match e with
  | Leaf i _ _ => M i
  | Dense m _ => dm m
  | Adj a => adjn (denote a)
  | Matmul a b _ => denote a *m denote b
  | Add a b plus => if plus then denote a + denote b else denote a - denote b
  | Mul a f => zr f *: denote a
  end.

(* flags that claim Hermiticity are truthful (what `is_hermitian=True` asserts) *)
Fixpoint herm_ok (e : lexpr) : Prop :=
  match e with
  | Leaf i _ h => h -> adjn (M i) = M i
  | Dense m h => h -> adjn (dm m) = dm m
  | Adj a => herm_ok a
  | Matmul a b h => [/\ herm_ok a, herm_ok b & h -> adjn (denote a *m denote b) = denote a *m denote b]
  | Add a b _ => herm_ok a /\ herm_ok b
  | Mul a _ => herm_ok a
  end.

Lemma herm_denote e : herm_ok e -> herm e -> adjn (denote e) = denote e.
Proof.
elim: e => [i c h|m h|a IH|a IHa b IHb h|a IHa b IHb p|a IH f] /=.
- by move=> H /H.
- by move=> H /H.
- by move=> Hok Hh; rewrite (IH Hok Hh) (IH Hok Hh).
- by case=> _ _ H /H.
- by case=> Ha Hb /andP[ha hb]; case: p => /=; rewrite ?adjnB ?adjnD (IHa Ha ha) (IHb Hb hb).
- by move=> Hok Hh; rewrite adjnZ (IH Hok Hh).
Qed.

(* semantics of a symbolic result applied to an operand X with r columns; user-supplied optional
   methods are taken to agree with the leaf's matrix (the property's own premise) *)
Fixpoint tsem r (t : term) (X : 'M[R]_(n, r)) : 'M[R]_(n, r) :=
  match t with
  | TX => X
  | TUmv i t | TUmm i t => M i *m tsem t X
  | TUrmv i t | TUrmm i t => adjn (M i) *m tsem t X
  | TUfull i => M i *m X
  | TDmul m t => dm m *m tsem t X
  | TDrmul m t => adjn (dm m) *m tsem t X
  | TDfull m => dm m *m X
  | TAdjTrick inner t => adjn (tsem inner (1%:M : 'M[R]_n)) *m tsem t X
  | TLet x b => tsem b (tsem x X)
  | TAdd a b => tsem a X + tsem b X
  | TSub a b => tsem a X - tsem b X
  | TScale f a => zr f *: tsem a X
  | TRaise => 0
  end.

Definition good r (x : term) (X : 'M[R]_(n, r)) (f : term -> term) (A : 'M[R]_n) : Prop :=
  raises (f x) = raises x /\ tsem (f x) X = A *m tsem x X.

(* the central lemma: _mv applies denote e, rmv applies its adjoint, for any operand term *)
Lemma both_sound e : herm_ok e ->
  (forall r x (X : 'M[R]_(n, r)), good x X (fst (both e)) (denote e)) /\
  (forall r x (X : 'M[R]_(n, r)), good x X (snd (both e)) (adjn (denote e))).
Proof.
elim: e => [i c h|m h|a IH|a IHa b IHb h|a IHa b IHb p|a IH f] Hok.
- (* Leaf *)
  have Hmv: forall r x (X : 'M[R]_(n, r)), good x X (fst (both (Leaf i c h))) (denote (Leaf i c h)).
    by move=> r x X; split.
  split=> // r x X; rewrite /good /=.
  case Hh: h => /=.
    by split=> //; rewrite (Hok Hh).
  case Hc: (c_rmv c) => /=; first by split.
  by split=> //=; rewrite mulmx1.
- (* Dense *)
  split=> r x X; rewrite /good /=; first by split.
  case Hh: h => /=; last by split.
  by split=> //; rewrite (Hok Hh).
- (* Adj *)
  have [IH1 IH2] := IH Hok.
  split=> r x X; rewrite /good /=.
    by have [-> ->] := IH2 r x X.
  case Hh: (herm a) => /=.
    have [-> ->] := IH2 r x X; split=> //.
    by rewrite !(@herm_denote a Hok Hh).
  by have [-> ->] := IH1 r x X; rewrite adjnK.
- (* Matmul *)
  case: Hok => Ha Hb Hh.
  have [A1 A2] := IHa Ha; have [B1 B2] := IHb Hb.
  have Hmv: forall r x (X : 'M[R]_(n, r)),
      good x X (fst (both (Matmul a b h))) (denote (Matmul a b h)).
    move=> r x X; rewrite /good /=.
    have [-> ->] := A1 r (fst (both b) x) X.
    by have [-> ->] := B1 r x X; rewrite mulmxA.
  split=> // r x X; rewrite /good /=.
  case Eh: h => /=.
    have [/= -> ->] := Hmv r x X; split=> //.
    by rewrite (Hh Eh).
  have [-> ->] := B2 r (snd (both a) x) X.
  by have [-> ->] := A2 r x X; rewrite adjnM mulmxA.
- (* Add *)
  case: Hok => Ha Hb.
  have [A1 A2] := IHa Ha; have [B1 B2] := IHb Hb.
  have Hmv: forall r x (X : 'M[R]_(n, r)),
      good x X (fst (both (Add a b p))) (denote (Add a b p)).
    move=> r x X; rewrite /good /=.
    have [Ea1 Ea2] := A1 r TX (tsem x X); have [Eb1 Eb2] := B1 r TX (tsem x X).
    by case: p => /=; rewrite Ea1 Eb1 Ea2 Eb2 /= orbF ?mulmxBl ?mulmxDl.
  split=> // r x X; rewrite /good /=.
  case Eh: (herm a && herm b) => /=.
    have [/= -> ->] := Hmv r x X; split=> //.
    move/andP: Eh => [ha hb].
    by case: p {Hmv} => /=; rewrite ?adjnB ?adjnD (herm_denote Ha ha) (herm_denote Hb hb).
  have [Ea1 Ea2] := A2 r TX (tsem x X); have [Eb1 Eb2] := B2 r TX (tsem x X).
  by case: p {Hmv} => /=; rewrite Ea1 Eb1 Ea2 Eb2 /= orbF ?adjnB ?adjnD ?mulmxBl ?mulmxDl.
- (* Mul *)
  have [A1 A2] := IH Hok.
  have Hmv: forall r x (X : 'M[R]_(n, r)),
      good x X (fst (both (Mul a f))) (denote (Mul a f)).
    move=> r x X; rewrite /good /=.
    by have [-> ->] := A1 r x X; rewrite scalemxAl.
  split=> // r x X; rewrite /good /=.
  case Eh: (herm a) => /=.
    have [/= -> ->] := Hmv r x X; split=> //.
    by rewrite adjnZ (@herm_denote a Hok Eh).
  by have [-> ->] := A2 r x X; rewrite adjnZ scalemxAl.
Qed.

(* ---- the five public products ---- *)
Lemma u_rmv_rmv e x : has_rmv e -> ~~ herm e -> u_rmv e x = rmv_ e x.
Proof.
rewrite /rmv_ /u_rmv.
case: e => [i c h|m h|a|a b h|a b p|a f] //=.
- by move=> -> /negbTE ->.
- by move=> _ /negbTE ->.
- by move=> _ /negbTE ->.
- by move=> _ /negbTE ->.
- by move=> _ /negbTE ->.
- by move=> _ /negbTE ->.
Qed.

Lemma mm_cases e x : mm_ e x = u_mv e x \/ (exists i, mm_ e x = TUmm i x /\ denote e = M i).
Proof.
rewrite /mm_; case: e => [i c h|m h|a|a b h|a b p|a f] /=; try by left.
by case: (c_mm c); [right; exists i | left].
Qed.

(* ---- the five public products ---- *)
Theorem products_sound e : herm_ok e -> forall r (X : 'M[R]_(n, r)),
  [/\ tsem (mv_ e TX) X = denote e *m X,
      tsem (rmv_ e TX) X = adjn (denote e) *m X,
      tsem (mm_ e TX) X = denote e *m X,
      tsem (rmm_ e TX) X = adjn (denote e) *m X &
      tsem (full_ e) (1%:M : 'M[R]_n) = denote e].
Proof.
move=> Hok r X.
have [B1 B2] := both_sound Hok.
have Emv: forall r (X : 'M[R]_(n, r)), tsem (u_mv e TX) X = denote e *m X.
  by move=> r' X'; have [_ ->] := B1 r' TX X'.
have Ermv: forall r (X : 'M[R]_(n, r)), tsem (rmv_ e TX) X = adjn (denote e) *m X.
  by move=> r' X'; have [_ ->] := B2 r' TX X'.
have Emm: forall r (X : 'M[R]_(n, r)), tsem (mm_ e TX) X = denote e *m X.
  move=> r' X'; case: (mm_cases e TX) => [->|[i [-> ->]]]; first exact: Emv.
  by [].
split.
- exact: Emv.
- exact: Ermv.
- exact: Emm.
- rewrite /rmm_; case Hh: (herm e).
    by rewrite Emm (herm_denote Hok Hh).
  case Hr: (has_rmm e).
    by case: e Hr {Hok Hh B1 B2 Emv Ermv Emm} => [i c h|m h|a|a b h|a b p|a f].
  case Hv: (has_rmv e); last exact: Ermv.
  by rewrite u_rmv_rmv ?Hh.
- rewrite /full_; case Hf: (has_full e); last by rewrite Emm mulmx1.
  by case: e Hf {Hok B1 B2 Emv Ermv Emm} => [i c h|m h|a|a b h|a b p|a f] //= _; rewrite mulmx1.
Qed.

(* totality: no product of a well-formed expression reaches a NotImplementedError stub *)
Theorem products_total e : herm_ok e ->
  [/\ raises (mv_ e TX) = false, raises (rmv_ e TX) = false, raises (mm_ e TX) = false,
      raises (rmm_ e TX) = false & raises (full_ e) = false].
Proof.
move=> Hok.
have [B1 B2] := both_sound Hok.
have Emv: raises (u_mv e TX) = false by have [-> _] := B1 1%N TX (0 : 'M[R]_(n, 1)).
have Ermv: raises (rmv_ e TX) = false by have [-> _] := B2 1%N TX (0 : 'M[R]_(n, 1)).
have Emm: raises (mm_ e TX) = false.
  by case: (mm_cases e TX) => [->|[i [-> _]]].
split.
- exact: Emv.
- exact: Ermv.
- exact: Emm.
- rewrite /rmm_; case Hh: (herm e) => //.
  case Hr: (has_rmm e).
    by case: e Hr {Hok Hh B1 B2 Emv Ermv Emm} => [i c h|m h|a|a b h|a b p|a f].
  case Hv: (has_rmv e) => //.
  by rewrite u_rmv_rmv ?Hh.
- rewrite /full_; case Hf: (has_full e) => //.
  by case: e Hf {Hok B1 B2 Emv Ermv Emm} => [i c h|m h|a|a b h|a b p|a f].
Qed.

(* an expression's matrix is the same expression of its operands' matrices: by definition of
   [denote]; the simplifying constructors preserve it *)
Theorem constructors_denote a b f h dh plus :
  [/\ denote (mk_matmul a b h) = denote a *m denote b,
      denote (mk_add a b plus dh) = (if plus then denote a + denote b else denote a - denote b),
      denote (mk_mul a f dh) = zr f *: denote a &
      herm_ok a -> denote (mk_H a dh) = adjn (denote a)].
Proof.
split.
- by case: a => [i c g|m g|x|x y g|x y p|x z]; case: b => [j d k|m' k|x'|x' y' k|x' y' p'|x' z'].
- by case: a => [i c g|m g|x|x y g|x y p|x z]; case: b => [j d k|m' k|x'|x' y' k|x' y' p'|x' z']; case: plus.
- by case: a.
- move=> Hok; rewrite /mk_H; case Hh: (herm a); first by rewrite (herm_denote Hok Hh).
  by case: a Hok Hh => [i c g|m g|x|x y g|x y p|x z] //= _ _; rewrite adjnK.
Qed.
End Sound.

(* Algebra of the mapped quadrature rule of Model/Quad.v (leggauss), over any ordered field. *)
From mathcomp Require Import all_ssreflect all_algebra.
From mathcomp Require Import ring.
From XV Require Import Base.Deriv.
Set Implicit Arguments.
Unset Strict Implicit.
Unset Printing Implicit Defensive.
Import GRing.Theory Num.Theory.
Local Open Scope ring_scope.

Section Rule.
Variable F : numFieldType.
Variable n : nat.
Variables x w : 'I_n -> F.          (* reference nodes and weights on [-1, 1] *)

Definition hw (xl xu : F) : F := 2%:R^-1 * (xu - xl).
Definition ct (xl xu : F) : F := 2%:R^-1 * (xu + xl).
(* sum_i (w_i * (0.5*(xu-xl))) * f (x_i * (0.5*(xu-xl)) + 0.5*(xu+xl)) *)
Definition Q (xl xu : F) (f : F -> F) : F :=
  \sum_i (w i * hw xl xu) * f (x i * hw xl xu + ct xl xu).

Lemma two_neq0 : (2%:R : F) != 0.
Proof. by rewrite pnatr_eq0. Qed.

Lemma ct_plus_hw xl xu : ct xl xu + hw xl xu = xu.
Proof. by rewrite /ct /hw; field. Qed.
Lemma ct_minus_hw xl xu : ct xl xu - hw xl xu = xl.
Proof. by rewrite /ct /hw; field. Qed.

(* linear in the integrand *)
Theorem quad_linear xl xu f g a b :
  Q xl xu (fun t => a * f t + b * g t) = a * Q xl xu f + b * Q xl xu g.
Proof.
rewrite /Q !mulr_sumr -big_split /=; apply: eq_bigr => i _; ring.
Qed.

(* changes sign when the limits are swapped, for a node-symmetric reference rule *)
Theorem quad_swap xl xu f :
  (forall i, x (rev_ord i) = - x i) -> (forall i, w (rev_ord i) = w i) ->
  Q xu xl f = - Q xl xu f.
Proof.
move=> Hx Hw; rewrite /Q (reindex_inj rev_ord_inj) /= -sumrN; apply: eq_bigr => i _.
rewrite Hx Hw.
have -> : hw xu xl = - hw xl xu by rewrite /hw; ring.
have -> : ct xu xl = ct xl xu by rewrite /ct; ring.
by rewrite mulrN mulNr mulrNN.
Qed.

(* moments of the reference rule up to degree d equal those of the integral over [-1,1] *)
Definition moments_exact (d : nat) : Prop :=
  forall j, (j <= d)%N -> \sum_i w i * x i ^+ j = (1 + (-1) ^+ j) / j.+1%:R.

(* the binomial identity behind the change of variables *)
Lemma moment_identity (c h : F) k :
  \sum_(j < k.+1) (c ^+ (k - j) * h ^+ j.+1 * (1 + (-1) ^+ j) / j.+1%:R) *+ 'C(k, j)
  = ((c + h) ^+ k.+1 - (c - h) ^+ k.+1) / k.+1%:R.
Proof.
have k0 : (k.+1%:R : F) != 0 by rewrite pnatr_eq0.
apply: (mulIf k0); rewrite divfK // mulr_suml.
rewrite exprDn exprBn big_ord_recl /= [in X in _ = _ - X]big_ord_recl /=.
rewrite !subn0 !expr0 !mulr1 mul1r bin0 !mulr1n opprD addrACA subrr add0r -sumrB.
apply: eq_bigr => j _; rewrite /bump /= !add1n subSS.
have j0 : (j.+1%:R : F) != 0 by rewrite pnatr_eq0.
have Hbin : (k.+1%:R : F) * ('C(k, j))%:R = j.+1%:R * ('C(k.+1, j.+1))%:R.
  by rewrite -!natrM mul_bin_diag.
rewrite -!(mulr_natr (_ * _) _).
have -> : ('C(k.+1, j.+1))%:R = (k.+1%:R : F) * ('C(k, j))%:R / j.+1%:R.
  by rewrite Hbin mulrAC mulfV // mul1r.
rewrite [(-1) ^+ j.+1]exprS.
move: j0; set s := (-1) ^+ j; set A := c ^+ _; set B := h ^+ _; set J := j.+1%:R; set K := k.+1%:R.
set C := _%:R => j0; field; exact: j0.
Qed.

(* THE exactness theorem: a reference rule exact up to degree d gives, after the affine map, a rule
   that integrates every monomial (hence every polynomial) of degree <= d exactly on [xl, xu],
   for all xl, xu in any order *)
Theorem mapped_rule_exact d xl xu k : moments_exact d -> (k <= d)%N ->
  Q xl xu (fun t => t ^+ k) = (xu ^+ k.+1 - xl ^+ k.+1) / k.+1%:R.
Proof.
move=> Hm Hk; set h := hw xl xu; set c := ct xl xu.
have -> : xu ^+ k.+1 - xl ^+ k.+1 = (c + h) ^+ k.+1 - (c - h) ^+ k.+1.
  by rewrite /c /h ct_plus_hw ct_minus_hw.
rewrite -moment_identity /Q -/h -/c.
rewrite (eq_bigr (fun i => \sum_(j < k.+1) (w i * x i ^+ j) * (c ^+ (k - j) * h ^+ j.+1) *+ 'C(k, j))); last first.
  move=> i _; rewrite [x i * h + c]addrC exprDn mulr_sumr; apply: eq_bigr => j _.
  rewrite mulrnAr; congr (_ *+ _); rewrite [(x i * h) ^+ j]exprMn [h ^+ j.+1]exprS.
  by set a1 := c ^+ _; set a2 := x i ^+ _; set a3 := h ^+ _; ring.
rewrite exchange_big /=; apply: eq_bigr => j _.
rewrite sumrMnl -mulr_suml Hm; last by apply: leq_trans Hk; rewrite -ltnS.
congr (_ *+ _).
by set a1 := c ^+ _; set a2 := h ^+ _; set a3 := (-1) ^+ _; set a4 := _%:R; ring.
Qed.

(* additivity over adjacent intervals for such monomials *)
Corollary quad_additive d a b c k : moments_exact d -> (k <= d)%N ->
  Q a b (fun t => t ^+ k) + Q b c (fun t => t ^+ k) = Q a c (fun t => t ^+ k).
Proof.
move=> Hm Hk; rewrite !(mapped_rule_exact _ _ Hm Hk) -mulrDl; congr (_ / _); ring.
Qed.

(* the rule sees the integrand at the nodes only *)
Lemma quad_ext xl xu f g : (forall t, f t = g t) -> Q xl xu f = Q xl xu g.
Proof. by move=> E; rewrite /Q; apply: eq_bigr => i _; rewrite E. Qed.

(* linear in the integrand, for finite sums *)
Lemma quad_sum xl xu m (c : 'I_m -> F) (f : 'I_m -> F -> F) :
  Q xl xu (fun t => \sum_k c k * f k t) = \sum_k c k * Q xl xu (f k).
Proof.
rewrite /Q (eq_bigr (fun i => \sum_k c k * ((w i * hw xl xu) * f k (x i * hw xl xu + ct xl xu)))); last first.
  by move=> i _; rewrite mulr_sumr; apply: eq_bigr => k _; ring.
rewrite exchange_big /=; apply: eq_bigr => k _; by rewrite mulr_sumr.
Qed.

(* hence EVERY polynomial of degree <= d is integrated exactly: the rule returns the difference of its antiderivative
   sum_k p_k t^(k+1)/(k+1) at the two limits, in any order of the limits *)
Theorem mapped_rule_exact_poly d xl xu (p : {poly F}) : moments_exact d -> (size p <= d.+1)%N ->
  Q xl xu (fun t => p.[t]) = \sum_(k < size p) p`_k * ((xu ^+ k.+1 - xl ^+ k.+1) / k.+1%:R).
Proof.
move=> Hm Hs.
rewrite (@quad_ext _ _ _ (fun t => \sum_(k < size p) p`_k * t ^+ k)); last by move=> t; rewrite horner_coef.
rewrite quad_sum; apply: eq_bigr => k _; rewrite (mapped_rule_exact _ _ Hm) //.
by have := ltn_ord k => Hk; rewrite -ltnS; apply: leq_trans Hk Hs.
Qed.

(* additivity over adjacent intervals for every exactly integrated polynomial, limits in any order *)
Corollary quad_additive_poly d a b c (p : {poly F}) : moments_exact d -> (size p <= d.+1)%N ->
  Q a b (fun t => p.[t]) + Q b c (fun t => p.[t]) = Q a c (fun t => p.[t]).
Proof.
move=> Hm Hs; rewrite !(mapped_rule_exact_poly _ _ Hm Hs) -big_split /=; apply: eq_bigr => k _.
by rewrite -mulrDr -mulrDl; congr (_ * (_ / _)); ring.
Qed.

(* ---- gradients ---- *)
Variable D : derivation F.

(* the nodes and weights do not depend on the parameter: the derivative of the rule is the same
   rule applied to the differentiated integrand (at every order, D being arbitrary) *)
Theorem rule_derivative_commutes (ws : 'I_n -> F) (fv : 'I_n -> F) :
  (forall i, D (ws i) = 0) -> D (\sum_i ws i * fv i) = \sum_i ws i * D (fv i).
Proof.
by move=> Hw; rewrite der_sum; apply: eq_bigr => i _; rewrite derM Hw mul0r add0r.
Qed.

Theorem unused_param_zero (ws fv : 'I_n -> F) :
  (forall i, D (ws i) = 0) -> (forall i, D (fv i) = 0) -> D (\sum_i ws i * fv i) = 0.
Proof. by move=> Hw Hf; rewrite rule_derivative_commutes // big1 // => i _; rewrite Hf mulr0. Qed.

Lemma der_exp (a : F) k : D (a ^+ k.+1) = k.+1%:R * a ^+ k * D a.
Proof.
elim: k => [|k IH]; first by rewrite expr1 expr0 mulr1 mul1r.
rewrite exprS derM IH -[in RHS]addn1 natrD [a ^+ k.+1 in RHS]exprS [a ^+ k.+1 in LHS]exprS.
by set b := a ^+ k; set m := _%:R; ring.
Qed.

(* the gradient w.r.t. the limits: for an integrand the rule integrates exactly (a polynomial of degree <= d whose coefficients
   do not depend on the parameter), the derivative of the FORWARD value is the Leibniz formula f(xu) D xu - f(xl) D xl the
   backward pass of quad returns, for limits in any order and every derivation (hence at every order) *)
Theorem limits_gradient_leibniz d xl xu (p : {poly F}) : moments_exact d -> (size p <= d.+1)%N ->
  (forall k, D p`_k = 0) ->
  D (Q xl xu (fun t => p.[t])) = p.[xu] * D xu - p.[xl] * D xl.
Proof.
move=> Hm Hs Hp; rewrite (mapped_rule_exact_poly _ _ Hm Hs) der_sum !horner_coef !mulr_suml -sumrB.
apply: eq_bigr => k _.
have k0 : (k.+1%:R : F) != 0 by rewrite pnatr_eq0.
rewrite derM Hp mul0r add0r der_div // derB !der_exp der_nat mulr0 mul0r subr0.
by set a := xu ^+ k; set b := xl ^+ k; set m := _%:R; field.
Qed.
End Rule.

(* Structural facts about the executable symeig model (C05): the slice keeps exactly the neig extreme
   values of an ascending list; davidson returns the visited Ritz pair of least residual, and when it
   leaves through the residual test that residual is below min_eps. *)
From Coq Require Import List Bool Arith ZArith Lia Sorted.
Import ListNotations.
From XV Require Import Base.Ops Base.LinAlg Model.Symeig.

(* ---------- _take_eigpairs ---------- *)
Section Take.
Local Open Scope Z_scope.

Lemma sorted_app_inv (l1 l2 : list Z) : Sorted Z.le (l1 ++ l2) ->
  Sorted Z.le l1 /\ Sorted Z.le l2 /\ (forall x y, In x l1 -> In y l2 -> x <= y).
Proof.
  intros H. apply Sorted_StronglySorted in H; [|intros a b c; lia].
  induction l1 as [|a l1 IH]; simpl in *.
  - repeat split; [constructor | apply StronglySorted_Sorted; exact H | intros x y []].
  - inversion H as [|? ? Hs Hall]; subst. destruct (IH Hs) as (S1 & S2 & Hle).
    rewrite Forall_app in Hall. destruct Hall as [Ha1 Ha2].
    repeat split.
    + apply StronglySorted_Sorted. constructor; [apply Sorted_StronglySorted; [intros x y z; lia | exact S1] | exact Ha1].
    + exact S2.
    + intros x y [<-|Hx] Hy; [rewrite Forall_forall in Ha2; apply Ha2; exact Hy | apply Hle; assumption].
Qed.

(* lowest: the result is the prefix; everything dropped is >= everything kept *)
Theorem take_lowest_spec (l : list Z) (neig : nat) : Sorted Z.le l -> (neig <= length l)%nat ->
  let r := take true neig l in
  exists dropped, l = r ++ dropped /\ length r = neig /\ Sorted Z.le r /\
                  (forall x y, In x r -> In y dropped -> x <= y).
Proof.
  intros Hs Hn; cbn [take]. exists (skipn neig l).
  assert (E : l = firstn neig l ++ skipn neig l) by (symmetry; apply firstn_skipn).
  split; [exact E|]. split; [apply firstn_length_le; exact Hn|].
  rewrite E in Hs. destruct (sorted_app_inv _ _ Hs) as (S1 & _ & Hle). split; assumption.
Qed.

(* uppest: the result is the suffix; everything dropped is <= everything kept *)
Theorem take_uppest_spec (l : list Z) (neig : nat) : Sorted Z.le l -> (1 <= neig <= length l)%nat ->
  let r := take false neig l in
  exists dropped, l = dropped ++ r /\ length r = neig /\ Sorted Z.le r /\
                  (forall x y, In x dropped -> In y r -> x <= y).
Proof.
  intros Hs Hn; cbn [take]. destruct (Nat.eqb_spec neig 0) as [->|_]; [lia|].
  exists (firstn (length l - neig) l).
  assert (E : l = firstn (length l - neig) l ++ skipn (length l - neig) l) by (symmetry; apply firstn_skipn).
  split; [exact E|]. split; [rewrite skipn_length; lia|].
  rewrite E in Hs. destruct (sorted_app_inv _ _ Hs) as (_ & S2 & Hle). split; assumption.
Qed.

(* values and vector columns are cut with the same indices *)
Theorem take_same_indices {X Y : Type} (lowest : bool) (neig : nat) (l : list X) (f : X -> Y) :
  take lowest neig (map f l) = map f (take lowest neig l).
Proof.
  unfold take. destruct lowest; [apply firstn_map|].
  destruct (Nat.eqb neig 0); [reflexivity|]. rewrite map_length. apply skipn_map.
Qed.

(* python's  l[-0:]  is the whole list (neig = 0 is outside the documented range) *)
Example take_uppest_zero : take false 0 [1; 2; 3] = [1; 2; 3].
Proof. reflexivity. Qed.
Example take_examples : take true 2 [1; 2; 3; 4] = [1; 2] /\ take false 2 [1; 2; 3; 4] = [3; 4] /\
                        take false 7 [1; 2; 3] = [1; 2; 3].
Proof. repeat split. Qed.
End Take.

(* ---------- davidson: which pair is returned ---------- *)
Section Dav.
Context {T : Type} (o : ops T) (cj : T -> T).
Notation "a <' b" := (oltb o a b = true) (at level 70).
(* the comparison is a strict weak order on the values met (true of Q, and of binary64 without nan) *)
Hypothesis lt_irrefl : forall a, ~ a <' a.
Hypothesis lt_trans : forall a b c, a <' b -> b <' c -> a <' c.
Hypothesis lt_cotrans : forall a b c, a <' c -> a <' b \/ b <' c.

Definition le' (a b : T) : Prop := ~ b <' a.

Lemma le_refl a : le' a a. Proof. apply lt_irrefl. Qed.
Lemma le_trans a b c : le' a b -> le' b c -> le' a c.
Proof. unfold le'; intros H1 H2 H. destruct (lt_cotrans c b a H) as [H3|H3]; tauto. Qed.
Lemma lt_le a b : a <' b -> le' a b.
Proof. unfold le'; intros H1 H2. apply (lt_irrefl a). eapply lt_trans; eassumption. Qed.
Lemma le_lt_trans a b c : le' a b -> b <' c -> a <' c.
Proof. unfold le'; intros H1 H2. destruct (lt_cotrans b a c H2) as [H|H]; tauto. Qed.

Variables (lowest : bool) (neig : nat) (useM : bool) (A M : list (list T)) (min_eps : T).

Definition visited (r : dav_out) (x : T * list T * list (list T)) : Prop :=
  exists l, In l (dv_logs r) /\ x = (lg_maxresid l, lg_e l, lg_x l).

Lemma dav_loop_inv fuel : forall tape V AV hb br be bx,
  let r := dav_loop o cj fuel lowest neig useM A M min_eps tape V AV hb br be bx in
  (* the running best only decreases *)
  le' (dv_best_resid r) br /\
  (* no visited iterate has a smaller residual than the one kept *)
  Forall (fun l => le' (dv_best_resid r) (lg_maxresid l)) (dv_logs r) /\
  (* what is returned is the incoming best or one of the visited pairs, with its own residual *)
  ((dv_best_resid r, dv_evals r, dv_evecs r) = (br, be, bx) /\ dv_has_best r = hb \/
   visited r (dv_best_resid r, dv_evals r, dv_evecs r) /\ dv_has_best r = true) /\
  (* leaving through the residual test: the last visited residual is below min_eps *)
  (dv_exit r = ExitResid -> exists l, In l (dv_logs r) /\ lg_maxresid l <' min_eps).
Proof.
  induction fuel as [|f IH]; intros tape V AV hb br be bx; cbn [dav_loop].
  - cbn. repeat split; [apply le_refl | constructor | left; auto | discriminate].
  - destruct tape as [|tp tape'].
    + cbn. repeat split; [apply le_refl | constructor | left; auto | discriminate].
    + destruct (dav_ritz o lowest neig useM M V AV (tp_eig tp)) as [[[[Tm e] x] resid] mr].
      set (better := oltb o mr br).
      assert (Hbr' : le' (if better then mr else br) br).
      { unfold better. destruct (oltb o mr br) eqn:E; [apply lt_le; exact E | apply le_refl]. }
      assert (Hmr : le' (if better then mr else br) mr).
      { unfold better. destruct (oltb o mr br) eqn:E; [apply le_refl | unfold le'; rewrite E; discriminate]. }
      assert (Hkeep : ((if better then mr else br), (if better then e else be), (if better then x else bx)) = (br, be, bx)
                      /\ (hb || better) = hb \/
                      ((if better then mr else br), (if better then e else be), (if better then x else bx)) = (mr, e, x)
                      /\ (hb || better) = true).
      { destruct better; [right; split; [reflexivity | apply orb_true_r] | left; split; [reflexivity | apply orb_false_r]]. }
      destruct (oltb o mr min_eps) eqn:Eeps; [|destruct (Nat.eqb (ncols AV) (length AV))].
      * cbn. repeat split; [exact Hbr' | constructor; [exact Hmr | constructor] | |].
        -- destruct Hkeep as [[K1 K2]|[K1 K2]]; [left; auto|].
           right. split; [|exact K2]. eexists; split; [left; reflexivity|]. cbn. exact K1.
        -- intros _. eexists; split; [left; reflexivity|]. exact Eeps.
      * cbn. repeat split; [exact Hbr' | constructor; [exact Hmr | constructor] | | discriminate].
        destruct Hkeep as [[K1 K2]|[K1 K2]]; [left; auto|].
        right. split; [|exact K2]. eexists; split; [left; reflexivity|]. cbn. exact K1.
      * destruct (dav_expand o cj useM A M V AV resid (tp_C tp) (tp_Rinv tp)) as [[carg Q] AV'].
        specialize (IH tape' Q AV' (hb || better) (if better then mr else br)
                       (if better then e else be) (if better then x else bx)).
        cbv zeta in IH. destruct IH as (I1 & I2 & I3 & I4).
        set (r := dav_loop o cj f lowest neig useM A M min_eps tape' Q AV' _ _ _ _) in *.
        cbn [add_log dv_best_resid dv_logs dv_evals dv_evecs dv_has_best dv_exit].
        repeat split.
        -- eapply le_trans; eassumption.
        -- constructor; [cbn; eapply le_trans; eassumption | exact I2].
        -- destruct I3 as [[J1 J2]|[[l [Hl J1]] J2]].
           ++ rewrite J1, J2. destruct Hkeep as [[K1 K2]|[K1 K2]]; [left; auto|].
              right. split; [|exact K2]. eexists; split; [left; reflexivity|]. cbn. exact K1.
           ++ right. split; [|exact J2]. exists l. split; [right; exact Hl | exact J1].
        -- intros Hx. destruct (I4 Hx) as [l [Hl Hlt]]. exists l. split; [right; exact Hl | exact Hlt].
Qed.

(* the statement used by the property *)
Theorem davidson_returns_best fuel tape V AV (inf : T) :
  let r := dav_loop o cj fuel lowest neig useM A M min_eps tape V AV false inf [] [] in
  Forall (fun l => le' (dv_best_resid r) (lg_maxresid l)) (dv_logs r) /\
  (dv_has_best r = true -> visited r (dv_best_resid r, dv_evals r, dv_evecs r)) /\
  (dv_exit r = ExitResid -> dv_best_resid r <' min_eps).
Proof.
  intros r. destruct (dav_loop_inv fuel tape V AV false inf [] []) as (I1 & I2 & I3 & I4).
  fold r in I1, I2, I3, I4. repeat split.
  - exact I2.
  - intros Hb. destruct I3 as [[_ J2]|[J1 _]]; [congruence | exact J1].
  - intros Hx. destruct (I4 Hx) as [l [Hl Hlt]].
    rewrite Forall_forall in I2. eapply le_lt_trans; [apply I2; exact Hl | exact Hlt].
Qed.
End Dav.

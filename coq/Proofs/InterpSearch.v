(* Bracket search of Interp1D (searchsorted(right=False) followed by clamp(1, nr-1)) on a sorted
   grid; carrier Z (the argument uses only the total order). *)
From Coq Require Import List Bool Arith ZArith Lia Sorted.
Import ListNotations.
From XV Require Import Base.Ops Model.Interp.

Definition Zops : ops Z :=
  mkOps Z 0%Z 1%Z Z.add Z.sub Z.mul Z.div Z.opp Z.abs (fun z => z) Z.ltb Z.leb Z.eqb (fun z => z).

Lemma count_lt_le x q : count_lt Zops x q <= length x.
Proof. induction x as [|a r IH]; cbn; [lia|]. destruct (Z.ltb a q); cbn; lia. Qed.

(* on a sorted list: everything before the count is < q, the element at the count (if any) is >= q *)
Lemma count_lt_spec x q : Sorted Z.le x ->
  (forall i, i < count_lt Zops x q -> (nth i x 0 < q)%Z) /\
  (count_lt Zops x q < length x -> (q <= nth (count_lt Zops x q) x 0)%Z).
Proof.
  induction x as [|a r IH]; intros Hs; cbn.
  - split; intros; lia.
  - inversion Hs as [|? ? Hs' Hhd]; subst. destruct (Z.ltb_spec a q) as [Hlt|Hge]; cbn.
    + destruct (IH Hs') as [I1 I2]. split.
      * intros [|i] Hi; cbn; [exact Hlt|]. apply I1. lia.
      * intros Hc. apply I2. lia.
    + split; [intros; lia|]. intros _. exact Hge.
Qed.

Theorem search_bracket x q : Sorted Z.le x -> 2 <= length x ->
  (nth 0 x 0 <= q <= nth (pred (length x)) x 0)%Z ->
  let ir := idx_right Zops x q in let il := pred ir in
  ir = S il /\ ir < length x /\ (nth il x 0 <= q <= nth ir x 0)%Z.
Proof.
  intros Hs Hlen [Hlo Hhi]. cbn zeta. unfold idx_right.
  pose proof (count_lt_le x q) as Hc. destruct (count_lt_spec x q Hs) as [S1 S2].
  set (c := count_lt Zops x q) in *.
  assert (Hir : Nat.min (Nat.max c 1) (pred (length x)) >= 1) by lia.
  split; [lia|]. split; [lia|].
  destruct (Nat.eq_dec c 0) as [C0|Cn0].
  - (* q <= x0: then q = x0; bracket [x0, x1] *)
    rewrite C0. cbn [Nat.max]. replace (Nat.min 1 (pred (length x))) with 1 by lia. cbn [pred].
    assert (q <= nth 0 x 0)%Z by (rewrite C0 in S2; apply S2; lia).
    split; [lia|].
    (* x0 <= x1 by sortedness *)
    destruct x as [|a [|b r]]; cbn in *; try lia.
    inversion Hs as [|? ? Hs' Hhd]; subst. inversion Hhd; subst. lia.
  - replace (Nat.max c 1) with c by lia.
    destruct (Nat.lt_ge_cases c (length x)) as [Hlt|Hge].
    + replace (Nat.min c (pred (length x))) with c by lia.
      split; [assert (nth (pred c) x 0 < q)%Z by (apply S1; lia); lia|apply S2; exact Hlt].
    + (* every element < q is impossible unless q > x_last; with q <= x_last the count is < length *)
      assert (c = length x) by lia.
      assert (nth (pred (length x)) x 0 < q)%Z by (apply S1; lia). lia.
Qed.

(* at a knot both adjacent pieces give the sample value (interp_at_knots), so the result does not
   depend on which of them the search selects *)

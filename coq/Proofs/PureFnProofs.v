From Coq Require Import List Bool Arith Lia.
Import ListNotations.
From XV Require Import Model.Packer Proofs.PackerProofs Model.PureFn.

(* ---------- Uniquifier round trips ---------- *)
Lemma uniq_ids_facts (all : list nat) :
  let '(ui, iv) := uniq_ids all in
  let U := map (fun j => nth j all 0) ui in
  NoDup U /\ length iv = length all /\
  (forall k, k < length all -> nth (nth k iv 0) U 0 = nth k all 0 /\ nth k iv 0 < length U) /\
  (forall x, In x U <-> In x all).
Proof.
  unfold uniq_ids.
  assert (Hrepr : seen_repr [] []) by (intros x; reflexivity).
  pose proof (uniq_go_spec all 0 [] [] Hrepr) as Heq. cbn [length] in Heq. rewrite Heq.
  pose proof (uniq_spec_sound all 0 [] [] (NoDup_nil _) eq_refl) as H.
  destruct (uniq_spec all 0 []) as [ui iv]. cbn zeta in *. cbn [app] in H.
  destruct H as (H1 & H2 & H3 & H4). repeat split; auto.
  - apply H3; assumption.
  - apply H3; assumption.
  - intros Hx. apply H4 in Hx. destruct Hx as [[]|Hx]; exact Hx.
  - intros Hx. apply H4. right. exact Hx.
Qed.

(* map_unique_objs(get_unique_objs()) gives back every slot its own tensor *)
Theorem map_unique_unique all : map_unique (snd (uniq_ids all)) (unique_objs all) = all.
Proof.
  pose proof (uniq_ids_facts all) as F. unfold map_unique, unique_objs.
  destruct (uniq_ids all) as [ui iv]. cbn zeta in F. cbn [fst snd].
  destruct F as (_ & Hlen & Hk & _).
  apply nth_ext with (d := 0) (d' := 0).
  - rewrite select_length. exact Hlen.
  - intros k Hk'. rewrite select_length in Hk'. rewrite select_nth by exact Hk'.
    assert (Hkb : k < length all) by lia. destruct (Hk k Hkb) as [Ha Hb].
    unfold select. exact Ha.
Qed.

(* the unique list has no repeated identity and covers every identity *)
Theorem unique_objs_nodup all : NoDup (unique_objs all) /\ (forall x, In x (unique_objs all) <-> In x all).
Proof.
  pose proof (uniq_ids_facts all) as F. unfold unique_objs.
  destruct (uniq_ids all) as [ui iv]. cbn zeta in F. cbn [fst].
  destruct F as (Hnd & _ & _ & Hin). split; [exact Hnd|exact Hin].
Qed.

(* two slots receive the same new tensor iff they held the same old tensor (aliasing preserved),
   whenever the caller supplies pairwise distinct new tensors *)
Theorem aliasing_preserved all us i j :
  length us = length (unique_objs all) -> NoDup us -> i < length all -> j < length all ->
  (nth i (map_unique (snd (uniq_ids all)) us) 0 = nth j (map_unique (snd (uniq_ids all)) us) 0
   <-> nth i all 0 = nth j all 0).
Proof.
  intros Hlen Hnd Hi Hj. pose proof (uniq_ids_facts all) as F. unfold map_unique, unique_objs in *.
  destruct (uniq_ids all) as [ui iv]. cbn zeta in F. cbn [fst snd] in *.
  destruct F as (HndU & Hliv & Hk & _). rewrite select_length in Hlen.
  rewrite !select_nth by lia.
  destruct (Hk i Hi) as [Hai Hbi]. destruct (Hk j Hj) as [Haj Hbj]. rewrite map_length in Hbi, Hbj.
  split.
  - intros E. apply (NoDup_nth us 0) in E; [|exact Hnd|lia|lia].
    rewrite <- Hai, <- Haj, E. reflexivity.
  - intros E. rewrite <- Hai, <- Haj in E.
    apply (NoDup_nth _ 0) in E; [|exact HndU|rewrite map_length; lia|rewrite map_length; lia].
    rewrite E. reflexivity.
Qed.

(* ---------- well-bracketed programs restore everything ---------- *)
Definition wf (s : state) : Prop :=
  store s = map_unique (inv s) (cur s) /\ length (cur s) = nuniq s.

Lemma wrap_wf all d : wf (wrap all d).
Proof.
  unfold wf, wrap. cbn. split; [symmetry; apply map_unique_unique|].
  unfold unique_objs. apply select_length.
Qed.

Lemma state_eta s : mkS (store s) (inv s) (nuniq s) (cur s) (stack s) (allowed s) (dbg s) = s.
Proof. destruct s; reflexivity. Qed.

Lemma set_wf s new : wf s -> wf (fst (set_obj s new)).
Proof.
  intros [H1 H2]. unfold set_obj.
  destruct (prefix_identical new (cur s)); [split; assumption|].
  destruct (Nat.eqb_spec (length new) (nuniq s)); split; cbn; auto.
Qed.

Lemma restore_set s new : wf s -> restore_obj (fst (set_obj s new)) = s.
Proof.
  intros [H1 H2]. unfold set_obj.
  destruct (prefix_identical new (cur s)) eqn:E.
  - unfold restore_obj. cbn [stack store inv nuniq cur allowed dbg fst]. apply state_eta.
  - destruct (Nat.eqb (length new) (nuniq s)); unfold restore_obj;
      cbn [stack store inv nuniq cur allowed dbg fst]; rewrite <- H1; apply state_eta.
Qed.

(* restore after a body that returned to the state it was entered in *)
Theorem exec_restores p : forall crash s n, wf s -> r_state (exec p crash s n) = s.
Proof.
  induction p as [|new body IH|body IH|on body IH|a IHa b IHb]; intros crash s n Hwf; cbn [exec].
  - reflexivity.
  - destruct (allowed s); cbn [negb]; [|reflexivity].
    pose proof (restore_set s new Hwf) as R. pose proof (set_wf s new Hwf) as W.
    destruct (set_obj s new) as [s1 raised]. cbn [fst] in *.
    destruct raised; cbn [r_state]; [exact R|]. rewrite (IH crash s1 n W). exact R.
  - cbn [r_state].
    assert (W : wf (mkS (store s) (inv s) (nuniq s) (cur s) (stack s) false (dbg s))) by exact Hwf.
    rewrite (IH crash _ n W). cbn. apply state_eta.
  - cbn [r_state].
    assert (W : wf (mkS (store s) (inv s) (nuniq s) (cur s) (stack s) (allowed s) on)) by exact Hwf.
    rewrite (IH crash _ n W). cbn. apply state_eta.
  - pose proof (IHa crash s n Hwf) as Ea.
    destruct (r_raised (exec a crash s n)); [exact Ea|]. cbn [r_state]. rewrite Ea. apply IHb. exact Hwf.
Qed.

(* in particular: object store, current parameters, restore stack, state-change permission and
   the debug flag are all back, for every crash point *)
Corollary exec_restores_all p crash all d :
  let s := r_state (exec p crash (wrap all d) 0) in
  store s = all /\ cur s = unique_objs all /\ stack s = [] /\ allowed s = true /\ dbg s = d.
Proof. cbn zeta. rewrite exec_restores by apply wrap_wf. cbn. auto. Qed.

(* what user code sees inside a substitution: every slot holds the tensor supplied for its class *)
Theorem inner_view s new crash n :
  allowed s = true -> prefix_identical new (cur s) = false -> length new = nuniq s ->
  r_trace (exec (PUse new PCall) crash s n) = [mkO (map_unique (inv s) new) (dbg s)].
Proof.
  intros Ha Hi Hl. cbn [exec]. rewrite Ha. cbn [negb]. unfold set_obj. rewrite Hi, Hl, Nat.eqb_refl.
  reflexivity.
Qed.

(* nested substitutions unwind last-in-first-out: after ANY block (however deeply it nests further
   substitutions) user code sees exactly what it saw before the block *)
Theorem lifo_unwind p s crash n : wf s ->
  r_raised (exec p crash s n) = false ->
  r_trace (exec (PSeq p PCall) crash s n) =
  r_trace (exec p crash s n) ++ [mkO (store s) (dbg s)].
Proof.
  intros Hwf Hr. cbn [exec]. rewrite Hr. cbn [r_trace]. rewrite (exec_restores p crash s n Hwf).
  reflexivity.
Qed.

(* a substitution is refused, without touching anything, while state changes are disabled *)
Theorem disabled_refuses s new body crash n :
  let r := exec (PDisable (PUse new body)) crash s n in
  r_raised r = true /\ r_state r = s /\ r_trace r = [].
Proof. cbn. rewrite state_eta. auto. Qed.

(* ---------- MultiSibling: splitting by the cumulative lengths inverts concatenation ---------- *)
Theorem multisibling_split_concat (parts : list (list nat)) :
  split_by (map (@length nat) parts) (concat parts) = parts.
Proof.
  induction parts as [|p r IH]; [reflexivity|]. cbn [map concat split_by].
  rewrite firstn_app, Nat.sub_diag, firstn_all, firstn_O, app_nil_r.
  rewrite skipn_app, Nat.sub_diag, skipn_all, skipn_O. cbn [app]. rewrite IH. reflexivity.
Qed.

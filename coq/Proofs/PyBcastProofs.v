(* xitorch/_utils/bcast.py AS TRANSLATED FROM /repo ON THIS RUN (Gen/PyBcast.v) computes the broadcast shape of
   Base/Shapes.v (on which the shape theorems of C01 / C11 / C14 are stated) for any two or more shapes. *)
From Coq Require Import ZArith List Bool Lia Arith.
From Coq Require String.
Import String.StringSyntax.
Import ListNotations.
From XV Require Import Base.Shapes Base.PyLib Gen.PyBcast.
Local Open Scope Z_scope.

Definition zs (l : list nat) : list Z := map Z.of_nat l.

(* ---------- max ---------- *)
Lemma max_list1_nat x l : max_list1 (Z.of_nat x) (zs l) = Z.of_nat (Nat.max x (list_max l)).
Proof.
  unfold max_list1. revert x. induction l as [|y r IH]; intros x; cbn [zs map fold_left list_max fold_right].
  - rewrite Nat.max_0_r. reflexivity.
  - rewrite <- Nat2Z.inj_max. unfold zs in IH. rewrite IH. f_equal.
    change (fold_right Nat.max 0%nat r) with (list_max r). lia.
Qed.

Lemma py_max_nat l : l <> [] -> py_max (zs l) = Ok (Z.of_nat (list_max l)).
Proof.
  destruct l as [|x r]; [congruence|]. intros _. cbn [zs map py_max]. f_equal.
  change (map Z.of_nat r) with (zs r). rewrite max_list1_nat. reflexivity.
Qed.

Lemma py_max_star_nat l : (2 <= length l)%nat -> py_max_star (zs l) = Ok (Z.of_nat (list_max l)).
Proof.
  destruct l as [|x [|y r]]; cbn [length]; try lia. intros _. cbn [zs map py_max_star]. f_equal.
  change (Z.of_nat y :: map Z.of_nat r) with (zs (y :: r)). rewrite max_list1_nat. reflexivity.
Qed.

(* ---------- padding ---------- *)
Lemma py_repeat_ones a b : py_repeat [1] (Z.of_nat a - Z.of_nat b) = zs (repeat 1%nat (a - b)).
Proof.
  unfold py_repeat. replace (Z.to_nat (Z.of_nat a - Z.of_nat b)) with (a - b)%nat by lia.
  induction (a - b)%nat as [|n IH]; cbn; [reflexivity|]. f_equal. exact IH.
Qed.

Lemma normalize_nat shapes : shapes <> [] ->
  normalize_bcast_dims (map zs shapes) = Ok (map zs (map (pad (maxlen shapes)) shapes)).
Proof.
  intros Hne. unfold normalize_bcast_dims. rewrite map_map.
  assert (Hl : map (fun x => py_len (zs x)) shapes = zs (map (@length nat) shapes)).
  { unfold zs. rewrite map_map. apply map_ext. intros s. unfold py_len. rewrite map_length. reflexivity. }
  rewrite Hl, py_max_nat by (destruct shapes; [congruence|discriminate]). cbn [bind]. f_equal.
  rewrite !map_map. apply map_ext. intros s. unfold py_len, pad, maxlen, zs. rewrite map_length, map_app.
  f_equal. apply py_repeat_ones.
Qed.

(* ---------- zip( *shapes) on lists of one length is the transpose ---------- *)
Definition column (P : list (list nat)) (i : nat) : list nat := map (fun l => nth i l 1%nat) P.

Lemma heads_tails_nat (P : list (list nat)) n : (forall l, In l P -> length l = S n) ->
  heads_tails (map zs P) = Some (zs (column P 0), map zs (map (@tl nat) P)).
Proof.
  induction P as [|l P IH]; intros H; cbn [map heads_tails]; [reflexivity|].
  assert (Hl := H l (or_introl eq_refl)). destruct l as [|x r]; [discriminate|].
  cbn [zs map]. fold (zs r). rewrite IH by (intros l' Hin; apply H; right; exact Hin). reflexivity.
Qed.

Lemma column_tl P i : column (map (@tl nat) P) i = column P (S i).
Proof. unfold column. rewrite map_map. apply map_ext. intros [|x r]; destruct i; reflexivity. Qed.

Lemma zip_star_nat n : forall P : list (list nat), (forall l, In l P -> length l = n) ->
  zip_star_fuel n (map zs P) = map zs (map (column P) (seq 0 n)).
Proof.
  induction n as [|n IH]; intros P H; [reflexivity|].
  cbn [zip_star_fuel]. rewrite (heads_tails_nat P n H). cbn [seq map]. f_equal.
  rewrite IH.
  - rewrite <- seq_shift, !map_map. apply map_ext. intros i. rewrite column_tl. reflexivity.
  - intros l Hin. apply in_map_iff in Hin as (l' & <- & Hin'). specialize (H l' Hin'). destruct l'; cbn in *; lia.
Qed.

Lemma pad_len n s : (length s <= n)%nat -> length (pad n s) = n.
Proof. intros H. unfold pad. rewrite app_length, repeat_length. lia. Qed.

Lemma maxlen_ge shapes s : In s shapes -> (length s <= maxlen shapes)%nat.
Proof.
  unfold maxlen. induction shapes as [|t r IH]; [intros []|]. cbn [map list_max fold_right In].
  intros [->|Hin]; [lia|]. specialize (IH Hin). change (fold_right Nat.max 0%nat (map (@length nat) r)) with (list_max (map (@length nat) r)). lia.
Qed.

Lemma mapM_ok {A B} (f : A -> res B) (g : A -> B) l : (forall x, In x l -> f x = Ok (g x)) -> mapM f l = Ok (map g l).
Proof.
  induction l as [|x r IH]; intros H; [reflexivity|]. cbn [mapM map].
  rewrite (H x (or_introl eq_refl)). cbn [bind]. rewrite IH by (intros y Hy; apply H; right; exact Hy). reflexivity.
Qed.

Lemma mapM_map_ok {A B C} (f : B -> res C) (h : A -> B) (g : A -> C) l :
  (forall x, In x l -> f (h x) = Ok (g x)) -> mapM f (map h l) = Ok (map g l).
Proof.
  induction l as [|x r IH]; intros H; [reflexivity|]. cbn [mapM map].
  rewrite (H x (or_introl eq_refl)). cbn [bind]. rewrite IH by (intros y Hy; apply H; right; exact Hy). reflexivity.
Qed.

(* get_bcasted_dims( *shapes) for two or more shapes is the model's broadcast shape *)
Theorem get_bcasted_dims_refines shapes : (2 <= length shapes)%nat ->
  PyBcast.get_bcasted_dims (map zs shapes) = Ok (zs (Shapes.get_bcasted_dims shapes)).
Proof.
  intros H2. unfold PyBcast.get_bcasted_dims.
  rewrite normalize_nat by (destruct shapes; [cbn in H2; lia|discriminate]). cbn [bind].
  set (n := maxlen shapes). set (P := map (pad n) shapes).
  assert (HP : forall l, In l P -> length l = n).
  { intros l Hin. apply in_map_iff in Hin as (s & <- & Hs). apply pad_len, maxlen_ge, Hs. }
  assert (Hzip : py_zip_star (map zs P) = map zs (map (column P) (seq 0 n))).
  { unfold py_zip_star. destruct P as [|l P'] eqn:EP.
    - subst P. destruct shapes; [cbn in H2; lia|discriminate].
    - cbn [map]. unfold zs at 1. rewrite map_length, (HP l (or_introl eq_refl)).
      exact (zip_star_nat n (l :: P') HP). }
  rewrite Hzip, map_map.
  rewrite (mapM_map_ok (fun a_ => py_max_star a_) _ (fun i => Z.of_nat (list_max (column P i)))).
  - f_equal. unfold zs, Shapes.get_bcasted_dims. fold n. rewrite !map_map. apply map_ext. intros i.
    unfold column, P. rewrite map_map. reflexivity.
  - intros i _. apply py_max_star_nat. unfold column, P. rewrite !map_length. exact H2.
Qed.

(* fewer than two shapes: the source raises (max of nothing / of one int) unless there is nothing to reduce *)
Theorem get_bcasted_dims_no_shapes : PyBcast.get_bcasted_dims [] = Raise "ValueError".
Proof. reflexivity. Qed.

(* the statement used by Props/C01.v, C11.v, C14.v (mathcomp files: the statement is named here, in stdlib scopes) *)
Definition translated_bcast_statement : Prop :=
  (forall shapes : list (list nat), (2 <= length shapes)%nat ->
     PyBcast.get_bcasted_dims (map zs shapes) = Ok (zs (Shapes.get_bcasted_dims shapes))) /\
  PyBcast.get_bcasted_dims [] = Raise "ValueError".
Lemma translated_bcast : translated_bcast_statement.
Proof. split; [exact get_bcasted_dims_refines|exact get_bcasted_dims_no_shapes]. Qed.

From Coq Require Import List Arith ZArith Bool Lia Sorted.
Import ListNotations.
From XV Require Import Model.Packer.

(* ---------- induction principle for the nested type ---------- *)
Section NodeInd.
  Variable P : node -> Prop.
  Hypothesis HT : forall t, P (NTens t).
  Hypothesis HL : forall l, Forall P l -> P (NList l).
  Hypothesis HD : forall l, Forall (fun kv => P (snd kv)) l -> P (NDict l).
  Hypothesis HO : forall l, Forall (fun kv => P (snd kv)) l -> P (NObj l).
  Hypothesis HTu : forall l, P (NTup l).
  Hypothesis HLf : forall z, P (NLeaf z).
  Fixpoint node_ind' (b : node) : P b :=
    match b with
    | NTens t => HT t
    | NList l => HL l ((fix go (l : list node) : Forall P l :=
                          match l with
                          | [] => Forall_nil _
                          | x :: r => Forall_cons _ (node_ind' x) (go r)
                          end) l)
    | NDict l => HD l ((fix go (l : list (nat * node)) : Forall (fun kv => P (snd kv)) l :=
                          match l with
                          | [] => Forall_nil _
                          | (k, x) :: r => Forall_cons (k, x) (node_ind' x) (go r)
                          end) l)
    | NObj l => HO l ((fix go (l : list (nat * node)) : Forall (fun kv => P (snd kv)) l :=
                          match l with
                          | [] => Forall_nil _
                          | (k, x) :: r => Forall_cons (k, x) (node_ind' x) (go r)
                          end) l)
    | NTup l => HTu l
    | NLeaf z => HLf z
    end.
End NodeInd.

(* ---------- put unfolds to the named loops ---------- *)
Lemma put_NList l ts : put (NList l) ts = let '(l', ts') := put_list l ts in (NList l', ts').
Proof.
  cbn [put].
  match goal with |- (let '(_, _) := ?g l ts in _) = _ => assert (H : forall l ts, g l ts = put_list l ts) end.
  { clear. induction l as [|x r IH]; intros ts; [reflexivity|].
    cbn [put_list]. destruct (put x ts) as [x' ts1]. rewrite IH. reflexivity. }
  rewrite H. reflexivity.
Qed.

Lemma put_NDict l ts : put (NDict l) ts = let '(l', ts') := put_kvs l ts in (NDict l', ts').
Proof.
  cbn [put].
  match goal with |- (let '(_, _) := ?g l ts in _) = _ => assert (H : forall l ts, g l ts = put_kvs l ts) end.
  { clear. induction l as [|[k x] r IH]; intros ts; [reflexivity|].
    cbn [put_kvs]. destruct (put x ts) as [x' ts1]. rewrite IH. reflexivity. }
  rewrite H. reflexivity.
Qed.

Lemma put_NObj l ts : put (NObj l) ts = let '(l', ts') := put_kvs l ts in (NObj l', ts').
Proof.
  cbn [put].
  match goal with |- (let '(_, _) := ?g l ts in _) = _ => assert (H : forall l ts, g l ts = put_kvs l ts) end.
  { clear. induction l as [|[k x] r IH]; intros ts; [reflexivity|].
    cbn [put_kvs]. destruct (put x ts) as [x' ts1]. rewrite IH. reflexivity. }
  rewrite H. reflexivity.
Qed.

(* ---------- skeleton: the structure with every tensor slot blanked ---------- *)
Fixpoint skel (b : node) : node :=
  match b with
  | NTens _ => NTens dummyT
  | NList l => NList (map skel l)
  | NDict l => NDict (map (fun kv => (fst kv, skel (snd kv))) l)
  | NObj l => NObj (map (fun kv => (fst kv, skel (snd kv))) l)
  | NTup l => NTup l
  | NLeaf z => NLeaf z
  end.

(* The central statement about one node, in the form that composes over sequences. *)
Definition put_ok (b : node) : Prop :=
  forall ts rest, length ts = length (extract b) ->
    extract (fst (put b (ts ++ rest))) = ts /\
    snd (put b (ts ++ rest)) = rest /\
    skel (fst (put b (ts ++ rest))) = skel b.

Lemma split_len {A} (ts : list A) n m : length ts = n + m ->
  exists a b, ts = a ++ b /\ length a = n /\ length b = m.
Proof.
  intros H. exists (firstn n ts), (skipn n ts).
  rewrite firstn_skipn. split; [reflexivity|].
  rewrite firstn_length, skipn_length. lia.
Qed.

Lemma put_list_ok l : Forall put_ok l ->
  forall ts rest, length ts = length (flat_map extract l) ->
    flat_map extract (fst (put_list l (ts ++ rest))) = ts /\
    snd (put_list l (ts ++ rest)) = rest /\
    map skel (fst (put_list l (ts ++ rest))) = map skel l.
Proof.
  induction 1 as [|x r Hx Hr IH]; intros ts rest Hlen.
  - cbn in *. destruct ts; [auto|discriminate].
  - cbn [flat_map] in Hlen. rewrite app_length in Hlen.
    destruct (split_len _ _ _ Hlen) as (a & b & -> & Ha & Hb).
    cbn [put_list]. rewrite <- app_assoc.
    destruct (Hx a (b ++ rest) Ha) as (E1 & E2 & E3).
    destruct (put x (a ++ b ++ rest)) as [x' ts1]. cbn [fst snd] in *. subst ts1.
    destruct (IH b rest Hb) as (F1 & F2 & F3).
    destruct (put_list r (b ++ rest)) as [r' ts2]. cbn [fst snd] in *.
    cbn [flat_map map]. rewrite E1, F1, E3, F3. auto.
Qed.

Lemma put_kvs_ok l : Forall (fun kv => put_ok (snd kv)) l ->
  forall ts rest, length ts = length (flat_map (fun kv => extract (snd kv)) l) ->
    flat_map (fun kv => extract (snd kv)) (fst (put_kvs l (ts ++ rest))) = ts /\
    snd (put_kvs l (ts ++ rest)) = rest /\
    map (fun kv => (fst kv, skel (snd kv))) (fst (put_kvs l (ts ++ rest))) =
    map (fun kv => (fst kv, skel (snd kv))) l.
Proof.
  induction 1 as [|[k x] r Hx Hr IH]; intros ts rest Hlen.
  - cbn in *. destruct ts; [auto|discriminate].
  - cbn [flat_map snd] in Hlen. rewrite app_length in Hlen.
    destruct (split_len _ _ _ Hlen) as (a & b & -> & Ha & Hb).
    cbn [put_kvs]. rewrite <- app_assoc. cbn [snd] in Hx.
    destruct (Hx a (b ++ rest) Ha) as (E1 & E2 & E3).
    destruct (put x (a ++ b ++ rest)) as [x' ts1]. cbn [fst snd] in *. subst ts1.
    destruct (IH b rest Hb) as (F1 & F2 & F3).
    destruct (put_kvs r (b ++ rest)) as [r' ts2]. cbn [fst snd] in *.
    cbn [flat_map map fst snd]. rewrite E1, F1, E3, F3. auto.
Qed.

Lemma put_ok_all b : put_ok b.
Proof.
  induction b as [t|l IH|l IH|l IH|l|z] using node_ind'; unfold put_ok; intros ts rest Hlen.
  - cbn in Hlen. destruct ts as [|x [|y r]]; try discriminate. cbn. auto.
  - rewrite put_NList. cbn [extract] in Hlen.
    destruct (put_list_ok l IH ts rest Hlen) as (E1 & E2 & E3).
    destruct (put_list l (ts ++ rest)) as [l' ts']. cbn [fst snd extract skel] in *.
    rewrite E1, E3. auto.
  - rewrite put_NDict. cbn [extract] in Hlen.
    destruct (put_kvs_ok l IH ts rest Hlen) as (E1 & E2 & E3).
    destruct (put_kvs l (ts ++ rest)) as [l' ts']. cbn [fst snd extract skel] in *.
    rewrite E1, E3. auto.
  - rewrite put_NObj. cbn [extract] in Hlen.
    destruct (put_kvs_ok l IH ts rest Hlen) as (E1 & E2 & E3).
    destruct (put_kvs l (ts ++ rest)) as [l' ts']. cbn [fst snd extract skel] in *.
    rewrite E1, E3. auto.
  - cbn in Hlen. destruct ts; [|discriminate]. cbn. auto.
  - cbn in Hlen. destruct ts; [|discriminate]. cbn. auto.
Qed.

Theorem extract_put b ts : length ts = length (extract b) ->
  extract (fst (put b ts)) = ts /\ snd (put b ts) = [] /\ skel (fst (put b ts)) = skel b.
Proof.
  intros H. pose proof (put_ok_all b ts [] H) as K. rewrite app_nil_r in K. exact K.
Qed.

(* putting back what was extracted is the identity *)
Definition put_id (b : node) : Prop := forall rest, put b (extract b ++ rest) = (b, rest).

Lemma put_extract_id b : put_id b.
Proof.
  induction b as [t|l IH|l IH|l IH|l|z] using node_ind'; unfold put_id; intros rest.
  - reflexivity.
  - rewrite put_NList. cbn [extract].
    assert (H : forall rest, put_list l (flat_map extract l ++ rest) = (l, rest)).
    { clear rest. induction IH as [|x r Hx Hr IH2]; intros rest; [reflexivity|].
      cbn [flat_map put_list]. rewrite <- app_assoc, Hx, IH2. reflexivity. }
    rewrite H. reflexivity.
  - rewrite put_NDict. cbn [extract].
    assert (H : forall rest, put_kvs l (flat_map (fun kv => extract (snd kv)) l ++ rest) = (l, rest)).
    { clear rest. induction IH as [|[k x] r Hx Hr IH2]; intros rest; [reflexivity|].
      cbn [flat_map put_kvs snd] in *. rewrite <- app_assoc, Hx, IH2. reflexivity. }
    rewrite H. reflexivity.
  - rewrite put_NObj. cbn [extract].
    assert (H : forall rest, put_kvs l (flat_map (fun kv => extract (snd kv)) l ++ rest) = (l, rest)).
    { clear rest. induction IH as [|[k x] r Hx Hr IH2]; intros rest; [reflexivity|].
      cbn [flat_map put_kvs snd] in *. rewrite <- app_assoc, Hx, IH2. reflexivity. }
    rewrite H. reflexivity.
  - reflexivity.
  - reflexivity.
Qed.

Lemma put_extract b : put b (extract b) = (b, []).
Proof. pose proof (put_extract_id b []) as H. rewrite app_nil_r in H. exact H. Qed.

(* ---------- _get_unique_idxs ---------- *)

(* invariant of the loop: [seen] maps exactly the identities of the processed prefix
   [pre] to slots < nuniq, and slot s was given to the identity at position (nth s upre) *)
Definition seen_ok (seen : list (nat * nat)) (done_ids : list nat) (nuniq : nat) : Prop :=
  (forall x, In x done_ids <-> lookup x seen <> None) /\
  (forall x s, lookup x seen = Some s -> s < nuniq).

Lemma lookup_cons_eq x v seen : lookup x ((x, v) :: seen) = Some v.
Proof. cbn. rewrite Nat.eqb_refl. reflexivity. Qed.
Lemma lookup_cons_neq x y v seen : x <> y -> lookup x ((y, v) :: seen) = lookup x seen.
Proof. intros H. cbn. destruct (Nat.eqb_spec x y); [contradiction|reflexivity]. Qed.

(* specification: uinv has one entry per input; uidx is strictly increasing and bounded;
   the selected identities are those of first occurrences *)
Lemma uniq_go_length ids : forall i seen n,
  length (snd (uniq_go ids i seen n)) = length ids.
Proof.
  induction ids as [|x r IH]; intros i seen n; [reflexivity|].
  cbn [uniq_go]. destruct (lookup x seen) as [s|].
  - specialize (IH (S i) seen n). destruct (uniq_go r (S i) seen n) as [ui inv].
    cbn in *. lia.
  - specialize (IH (S i) ((x, n) :: seen) (S n)).
    destruct (uniq_go r (S i) ((x, n) :: seen) (S n)) as [ui inv]. cbn in *. lia.
Qed.

Lemma uniq_go_idx_range ids : forall i seen n j,
  In j (fst (uniq_go ids i seen n)) -> i <= j < i + length ids.
Proof.
  induction ids as [|x r IH]; intros i seen n j Hj; [destruct Hj|].
  cbn [uniq_go] in Hj. destruct (lookup x seen) as [s|].
  - specialize (IH (S i) seen n j). destruct (uniq_go r (S i) seen n) as [ui inv].
    cbn in *. specialize (IH Hj). lia.
  - specialize (IH (S i) ((x, n) :: seen) (S n) j).
    destruct (uniq_go r (S i) ((x, n) :: seen) (S n)) as [ui inv]. cbn in *.
    destruct Hj as [->|Hj]; [lia|]. specialize (IH Hj). lia.
Qed.

Lemma uniq_go_sorted ids : forall i seen n,
  StronglySorted lt (fst (uniq_go ids i seen n)).
Proof.
  induction ids as [|x r IH]; intros i seen n; [constructor|].
  cbn [uniq_go]. destruct (lookup x seen) as [s|].
  - specialize (IH (S i) seen n). destruct (uniq_go r (S i) seen n) as [ui inv]. exact IH.
  - pose proof (uniq_go_idx_range r (S i) ((x, n) :: seen) (S n)) as Hr.
    specialize (IH (S i) ((x, n) :: seen) (S n)).
    destruct (uniq_go r (S i) ((x, n) :: seen) (S n)) as [ui inv]. cbn [fst] in *.
    constructor; [exact IH|]. apply Forall_forall. intros j Hj. specialize (Hr j Hj). lia.
Qed.

(* The main functional specification, relative to an accumulator:
   [acc] is the list of identities already given slots (slot s <-> nth s acc),
   [seen] represents it.  Then the identities selected by the new unique indices,
   appended to acc, is duplicate free and the inverse map points at the right identity. *)
Definition repr (seen : list (nat * nat)) (acc : list nat) : Prop :=
  forall x, lookup x seen = match find (fun p => Nat.eqb x (fst p)) (combine acc (seq 0 (length acc))) with
                             | Some p => Some (snd p) | None => None end.

Fixpoint index_of (x : nat) (l : list nat) : option nat :=
  match l with
  | [] => None
  | y :: r => if Nat.eqb x y then Some 0 else option_map S (index_of x r)
  end.

(* simpler executable specification of the pair (uidx, uinv) *)
Fixpoint uniq_spec (ids : list nat) (i : nat) (acc : list nat) : list nat * list nat :=
  match ids with
  | [] => ([], [])
  | x :: r =>
      match index_of x acc with
      | Some s => let '(ui, inv) := uniq_spec r (S i) acc in (ui, s :: inv)
      | None => let '(ui, inv) := uniq_spec r (S i) (acc ++ [x]) in (i :: ui, length acc :: inv)
      end
  end.

Definition seen_repr (seen : list (nat * nat)) (acc : list nat) : Prop :=
  forall x, lookup x seen = index_of x acc.

Lemma index_of_app_notin x acc y : index_of x acc = None ->
  index_of x (acc ++ [y]) = if Nat.eqb x y then Some (length acc) else None.
Proof.
  induction acc as [|a r IH]; intros H; cbn in *.
  - destruct (Nat.eqb x y); reflexivity.
  - destruct (Nat.eqb x a); [discriminate|].
    destruct (index_of x r) as [s|]; [discriminate|]. rewrite (IH eq_refl).
    destruct (Nat.eqb x y); reflexivity.
Qed.

Lemma index_of_app_in x acc y s : index_of x acc = Some s -> index_of x (acc ++ [y]) = Some s.
Proof.
  revert s. induction acc as [|a r IH]; intros s H; cbn in *; [discriminate|].
  destruct (Nat.eqb x a); [exact H|].
  destruct (index_of x r) as [s'|]; [|discriminate]. rewrite (IH s' eq_refl). exact H.
Qed.

Lemma uniq_go_spec ids : forall i seen acc,
  seen_repr seen acc -> uniq_go ids i seen (length acc) = uniq_spec ids i acc.
Proof.
  induction ids as [|x r IH]; intros i seen acc Hr; [reflexivity|].
  cbn [uniq_go uniq_spec]. rewrite (Hr x). destruct (index_of x acc) as [s|] eqn:E.
  - rewrite (IH (S i) seen acc Hr). reflexivity.
  - assert (Hr' : seen_repr ((x, length acc) :: seen) (acc ++ [x])).
    { intros y. destruct (Nat.eq_dec y x) as [->|Hn].
      - rewrite lookup_cons_eq, (index_of_app_notin _ _ _ E), Nat.eqb_refl. reflexivity.
      - rewrite (lookup_cons_neq _ _ _ _ Hn), (Hr y).
        destruct (index_of y acc) as [s|] eqn:E2.
        + symmetry. apply index_of_app_in. exact E2.
        + rewrite (index_of_app_notin _ _ _ E2). destruct (Nat.eqb_spec y x); [contradiction|reflexivity]. }
    pose proof (IH (S i) ((x, length acc) :: seen) (acc ++ [x]) Hr') as H.
    rewrite app_length in H. cbn in H. rewrite Nat.add_1_r in H. rewrite H. reflexivity.
Qed.

Lemma index_of_Some x l s : index_of x l = Some s -> nth s l 0 = x /\ s < length l.
Proof.
  revert s. induction l as [|y r IH]; intros s H; cbn in *; [discriminate|].
  destruct (Nat.eqb_spec x y) as [->|Hn].
  - inversion H. subst. cbn. split; [reflexivity|lia].
  - destruct (index_of x r) as [s'|]; [|discriminate]. inversion H. subst.
    destruct (IH s' eq_refl). cbn. split; [assumption|lia].
Qed.

Lemma index_of_None x l : index_of x l = None -> ~ In x l.
Proof.
  induction l as [|y r IH]; intros H; cbn in *; [tauto|].
  destruct (Nat.eqb_spec x y) as [->|Hn]; [discriminate|].
  destruct (index_of x r); [discriminate|]. intros [Hy|Hy]; [congruence|]. exact (IH eq_refl Hy).
Qed.

Lemma NoDup_snoc {A} (l : list A) x : NoDup l -> ~ In x l -> NoDup (l ++ [x]).
Proof.
  induction 1 as [|y r Hy Hr IH]; intros Hx; cbn.
  - constructor; [tauto|constructor].
  - constructor.
    + rewrite in_app_iff. cbn in *. intros [?|[?|[]]]; [tauto|]. subst. tauto.
    + apply IH. cbn in Hx. tauto.
Qed.

(* What the pair means: with U := acc ++ (identities at the returned indices),
   U has no duplicates, and for each position k the inverse entry selects the identity
   found at that position. *)
Lemma uniq_spec_sound ids : forall i acc pre,
  NoDup acc -> length pre = i ->
  let '(ui, inv) := uniq_spec ids i acc in
  let U := acc ++ map (fun j => nth j (pre ++ ids) 0) ui in
  NoDup U /\ length inv = length ids /\
  (forall k, k < length ids -> nth (nth k inv 0) U 0 = nth k ids 0 /\ nth k inv 0 < length U) /\
  (forall x, In x U <-> In x acc \/ In x ids).
Proof.
  induction ids as [|x r IH]; intros i acc pre Hnd Hpre.
  - cbn. rewrite app_nil_r. repeat split; auto; try lia; tauto.
  - cbn [uniq_spec]. destruct (index_of x acc) as [s|] eqn:E.
    + specialize (IH (S i) acc (pre ++ [x]) Hnd).
      rewrite app_length in IH. cbn [length] in IH. specialize (IH ltac:(lia)).
      destruct (uniq_spec r (S i) acc) as [ui inv]. cbn zeta in *.
      rewrite <- app_assoc in IH. cbn [app] in IH.
      destruct IH as (H1 & H2 & H3 & H4).
      split; [exact H1|]. split; [cbn; lia|]. split.
      * intros k Hk. destruct k as [|k].
        -- cbn [nth]. destruct (index_of_Some _ _ _ E) as [Ha Hb].
           rewrite app_nth1 by exact Hb. split; [exact Ha|]. rewrite app_length. lia.
        -- cbn [nth length] in *. apply H3. lia.
      * intros y. rewrite H4. cbn [In]. destruct (index_of_Some _ _ _ E) as [Ha Hb].
        assert (In x acc) by (rewrite <- Ha; apply nth_In; exact Hb).
        split; [tauto|]. intros [?|[->|?]]; tauto.
    + assert (Hnd' : NoDup (acc ++ [x])).
      { apply NoDup_snoc; [exact Hnd | apply index_of_None; exact E]. }
      specialize (IH (S i) (acc ++ [x]) (pre ++ [x]) Hnd').
      rewrite app_length in IH. cbn [length] in IH. specialize (IH ltac:(lia)).
      destruct (uniq_spec r (S i) (acc ++ [x])) as [ui inv]. cbn zeta in *.
      rewrite <- !app_assoc in IH. cbn [app] in IH.
      destruct IH as (H1 & H2 & H3 & H4).
      cbn [map]. assert (Hx : nth i (pre ++ x :: r) 0 = x).
      { rewrite app_nth2 by lia. rewrite Hpre, Nat.sub_diag. reflexivity. }
      rewrite Hx. split; [exact H1|]. split; [cbn; lia|]. split.
      * intros k Hk. destruct k as [|k].
        -- cbn [nth]. rewrite app_nth2 by lia. rewrite Nat.sub_diag. cbn.
           split; [reflexivity|]. rewrite app_length. cbn. lia.
        -- cbn [nth length] in *. apply H3. lia.
      * intros y. rewrite H4. rewrite in_app_iff. cbn [In]. tauto.
Qed.

Definition ids_of (ts : list tens) := map tid ts.

Theorem unique_spec (b : list tens) :
  let '(ui, inv) := get_unique_idxs b in
  let U := map (fun j => nth j (ids_of b) 0) ui in
  StronglySorted lt ui /\                                  (* stable, first-occurrence order *)
  (forall j, In j ui -> j < length b) /\
  NoDup U /\                                               (* each distinct tensor once *)
  length inv = length b /\
  (forall k, k < length b -> nth (nth k inv 0) U 0 = nth k (ids_of b) 0 /\ nth k inv 0 < length ui) /\
  (forall x, In x U <-> In x (ids_of b)).
Proof.
  unfold get_unique_idxs.
  pose proof (uniq_go_sorted (map tid b) 0 [] 0) as Hs.
  pose proof (uniq_go_idx_range (map tid b) 0 [] 0) as Hr.
  assert (Hrepr : seen_repr [] []) by (intros x; reflexivity).
  pose proof (uniq_go_spec (map tid b) 0 [] [] Hrepr) as Heq. cbn [length] in Heq.
  rewrite Heq in *.
  pose proof (uniq_spec_sound (map tid b) 0 [] [] (NoDup_nil _) eq_refl) as H.
  destruct (uniq_spec (map tid b) 0 []) as [ui inv]. cbn zeta in *. cbn [app fst] in *.
  destruct H as (H1 & H2 & H3 & H4). rewrite map_length in *.
  split; [exact Hs|]. split; [intros j Hj; specialize (Hr j Hj); lia|].
  split; [exact H1|]. split; [exact H2|]. split.
  - intros k Hk. destruct (H3 k Hk) as [Ha Hb]. rewrite map_length in Hb. split; assumption.
  - intros x. rewrite H4. cbn. tauto.
Qed.

(* select by the inverse map: position k receives us[inv[k]] *)
Lemma select_nth {A} (d : A) l idxs k : k < length idxs ->
  nth k (select d l idxs) d = nth (nth k idxs 0) l d.
Proof.
  intros H. unfold select.
  rewrite (nth_indep _ d (nth 0 l d)) by (rewrite map_length; exact H).
  change (nth 0 l d) with ((fun i => nth i l d) 0). rewrite map_nth. reflexivity.
Qed.

Lemma select_length {A} (d : A) l idxs : length (select d l idxs) = length idxs.
Proof. apply map_length. Qed.

(* ---------- flat tensor interface ---------- *)
Lemma split_flat_roundtrip : forall (ts : list tens) i,
  Forall (fun t => length (tdata t) = numel (tshape t)) ts ->
  map (fun t => (tshape t, tdata t))
      (split_flat i (flat_map tdata ts) (map (fun t => numel (tshape t)) ts) (map tshape ts))
  = map (fun t => (tshape t, tdata t)) ts.
Proof.
  induction ts as [|t r IH]; intros i H; [reflexivity|].
  inversion H as [|? ? Ht Hr]; subst. cbn [map flat_map split_flat].
  rewrite <- Ht. rewrite firstn_app, Nat.sub_diag, firstn_all, firstn_O, app_nil_r.
  rewrite skipn_app, Nat.sub_diag, skipn_all, skipn_O. cbn [app map tshape tdata].
  rewrite (IH (S i) Hr). reflexivity.
Qed.

Lemma split_flat_length : forall numels shapes i data, length numels = length shapes ->
  length (split_flat i data numels shapes) = length shapes.
Proof.
  induction numels as [|n rn IH]; intros [|s rs] i data H; try discriminate; [reflexivity|].
  cbn. rewrite IH; [reflexivity|]. cbn in H. lia.
Qed.

Lemma split_flat_shapes : forall numels shapes i data, length numels = length shapes ->
  map tshape (split_flat i data numels shapes) = shapes.
Proof.
  induction numels as [|n rn IH]; intros [|s rs] i data H; try discriminate; [reflexivity|].
  cbn. rewrite IH; [reflexivity|]. cbn in H. lia.
Qed.

(* fresh identities are pairwise distinct: slices never alias each other *)
Lemma split_flat_ids : forall numels shapes i data,
  map tid (split_flat i data numels shapes)
  = map (fun k => fresh_base + k) (seq i (length (split_flat i data numels shapes))).
Proof.
  induction numels as [|n rn IH]; intros [|s rs] i data; try reflexivity.
  cbn [split_flat map length seq tid]. rewrite IH. reflexivity.
Qed.

(* ---------- the state machine ---------- *)

Lemma shapes_match_self ts : shapes_match ts (map tshape ts) = true.
Proof.
  induction ts as [|t r IH]; [reflexivity|]. cbn.
  destruct (list_eq_dec Nat.eq_dec (tshape t) (tshape t)); [exact IH|contradiction].
Qed.

(* every operation leaves the stored object and the tensor list untouched *)
Theorem step_pure p o : p_obj (snd (step p o)) = p_obj p /\ p_tensors (snd (step p o)) = p_tensors p.
Proof.
  destruct o as [u|u|ts u|a u]; cbn [step].
  - unfold get_list. destruct u; cbn; auto.
  - unfold get_tensor, get_list.
    destruct u; cbn.
    + destruct (select dummyT (p_tensors p) _) as [|t [|t2 r]]; cbn; auto.
    + destruct (p_tensors p) as [|t [|t2 r]]; cbn; auto.
  - cbn. auto.
  - cbn. auto.
Qed.

(* The whole Packer state is a function of the structure and of WHICH get_* calls have
   happened so far (four flags) -- never of their order, their number or their results. *)
Definition uts (obj : node) : list tens :=
  select dummyT (extract obj) (fst (get_unique_idxs (extract obj))).
Definition nm (ts : list tens) : list nat := map (fun t => numel (tshape t)) ts.
Definition nonempty {A} (l : list A) : bool := match l with [] => false | _ => true end.

Definition state_of (obj : node) (gu gn tu tn : bool) : packer :=
  mkP obj (extract obj)
      (if gu then Some (get_unique_idxs (extract obj)) else None)
      (if gu then Some (map tshape (uts obj)) else None)
      (if gn then Some (map tshape (extract obj)) else None)
      (if tu then Some (nm (uts obj)) else None)
      (if tn then Some (nm (extract obj)) else None).

Definition flags_step (obj : node) (o : op) (f : bool * bool * bool * bool) :=
  let '(gu, gn, tu, tn) := f in
  match o with
  | OGetList true => (true, gn, tu, tn)
  | OGetList false => (gu, true, tu, tn)
  | OGetTensor true => (true, gn, tu || nonempty (uts obj), tn)
  | OGetTensor false => (gu, true, tu, tn || nonempty (extract obj))
  | _ => f
  end.

Definition state_of_flags obj (f : bool * bool * bool * bool) :=
  let '(gu, gn, tu, tn) := f in state_of obj gu gn tu tn.

Lemma init_state obj : packer_init obj = state_of obj false false false false.
Proof. reflexivity. Qed.

Theorem step_state obj f o :
  snd (step (state_of_flags obj f) o) = state_of_flags obj (flags_step obj o f).
Proof.
  destruct f as [[[gu gn] tu] tn].
  destruct o as [u|u|ts u|a u]; cbn [step state_of_flags flags_step]; try (destruct u; reflexivity).
  - destruct u, gu, gn; reflexivity.
  - unfold get_tensor, get_list, state_of.
    destruct u.
    + cbn [p_uidx p_tensors p_obj p_ushapes p_shapes p_unumels p_numels fst snd].
      assert (E : match (if gu then Some (get_unique_idxs (extract obj)) else None) with
                  | Some ui => ui | None => get_unique_idxs (extract obj) end
                  = get_unique_idxs (extract obj)) by (destruct gu; reflexivity).
      rewrite E. fold (uts obj).
      destruct (uts obj) as [|t [|t2 r]] eqn:Eu; cbn [snd nonempty];
        rewrite ?orb_false_r, ?orb_true_r; unfold state_of_flags, state_of; rewrite ?Eu;
        destruct gu, tu; reflexivity.
    + cbn [p_uidx p_tensors p_obj p_ushapes p_shapes p_unumels p_numels fst snd].
      destruct (extract obj) as [|t [|t2 r]] eqn:Eu; cbn [snd nonempty];
        rewrite ?orb_false_r, ?orb_true_r; unfold state_of_flags, state_of; rewrite ?Eu;
        destruct gn, tn; reflexivity.
Qed.

(* hence: after any sequence of operations the state is state_of with accumulated flags *)
Fixpoint flags_run obj (ops : list op) f :=
  match ops with [] => f | o :: r => flags_run obj r (flags_step obj o f) end.

Fixpoint final (p : packer) (ops : list op) : packer :=
  match ops with [] => p | o :: r => final (snd (step p o)) r end.

Theorem call_order_spec obj ops f :
  final (state_of_flags obj f) ops = (state_of_flags obj (flags_run obj ops f)).
Proof.
  revert f. induction ops as [|o r IH]; intros f; [reflexivity|].
  cbn [final flags_run]. rewrite step_state. apply IH.
Qed.

(* purity: the stored structure and its tensor list never change *)
Theorem packer_pure obj ops :
  p_obj (final (packer_init obj) ops) = obj /\ p_tensors (final (packer_init obj) ops) = extract obj.
Proof.
  rewrite init_state. change (state_of obj false false false false)
    with (state_of_flags obj (false, false, false, false)).
  rewrite call_order_spec. destruct (flags_run obj ops _) as [[[a b] c] d]. split; reflexivity.
Qed.

(* ---------- construct_from_tensor_list ---------- *)

(* non-unique mode: position i of the result holds the i-th supplied tensor *)
Theorem construct_list_positions obj gu tu tn ts :
  length ts = length (extract obj) -> extract obj <> [] ->
  map tshape ts = map tshape (extract obj) ->
  exists o', from_list (state_of obj gu true tu tn) ts false = RObj o' /\            extract o' = ts /\ skel o' = skel obj.
Proof.
  intros Hlen Hne Hsh. unfold from_list, state_of. cbn [p_shapes p_ushapes p_obj p_uidx].
  rewrite map_length, <- Hlen, Nat.eqb_refl. cbn [negb].
  destruct (length ts =? 0) eqn:E0.
  { apply Nat.eqb_eq in E0. rewrite E0 in Hlen. destruct (extract obj); [contradiction|discriminate]. }
  rewrite <- Hsh, shapes_match_self. cbn [negb].
  destruct (extract_put obj ts Hlen) as (E1 & E2 & E3).
  eexists. split; [reflexivity|]. split; assumption.
Qed.

(* unique mode: position i holds us[uinv[i]] : aliased slots stay aliased and slots that
   held distinct tensors receive the tensors chosen by the caller for their classes *)
Theorem construct_unique_aliasing obj gn tu tn us :
  length us = length (uts obj) -> extract obj <> [] ->
  map tshape us = map tshape (uts obj) ->
  exists o', from_list (state_of obj true gn tu tn) us true = RObj o' /\            extract o' = select dummyT us (snd (get_unique_idxs (extract obj))) /\            skel o' = skel obj.
Proof.
  intros Hlen Hne Hsh. unfold from_list, state_of. cbn [p_shapes p_ushapes p_obj p_uidx].
  rewrite map_length, <- Hlen, Nat.eqb_refl. cbn [negb].
  pose proof (unique_spec (extract obj)) as U.
  destruct (get_unique_idxs (extract obj)) as [ui inv] eqn:EU. cbn zeta in U.
  destruct U as (_ & _ & _ & Hinv & Hk & _).
  destruct (length us =? 0) eqn:E0.
  { apply Nat.eqb_eq in E0. exfalso.
    destruct (extract obj) as [|t r] eqn:Ee; [contradiction|].
    specialize (Hk 0 ltac:(cbn; lia)). destruct Hk as [_ Hk].
    unfold uts in Hlen. rewrite Ee, EU in Hlen. cbn [fst] in Hlen.
    rewrite select_length in Hlen. lia. }
  rewrite <- Hsh, shapes_match_self. cbn [negb snd].
  assert (Hl2 : length (select dummyT us inv) = length (extract obj)).
  { rewrite select_length. exact Hinv. }
  destruct (extract_put obj _ Hl2) as (E1 & E2 & E3).
  eexists. split; [reflexivity|]. split; assumption.
Qed.

(* feeding back exactly what get_param_tensor_list returned rebuilds the original.
   Identity determines the object: two list entries with the same id are the same tensor. *)
Definition ids_consistent (b : list tens) : Prop :=
  forall i j, i < length b -> j < length b ->
    tid (nth i b dummyT) = tid (nth j b dummyT) -> nth i b dummyT = nth j b dummyT.

Lemma nth_ids b k : nth k (ids_of b) 0 = tid (nth k b dummyT).
Proof. unfold ids_of. change 0 with (tid dummyT). apply map_nth. Qed.

Lemma nth_map_lt {A B} (f : A -> B) l i d d' : i < length l ->
  nth i (map f l) d = f (nth i l d').
Proof.
  revert i. induction l as [|x r IH]; intros i H; cbn in *; [lia|].
  destruct i; [reflexivity|]. apply IH. lia.
Qed.

Lemma select_inv_roundtrip (b : list tens) : ids_consistent b ->
  select dummyT (select dummyT b (fst (get_unique_idxs b))) (snd (get_unique_idxs b)) = b.
Proof.
  intros Hc. pose proof (unique_spec b) as U.
  destruct (get_unique_idxs b) as [ui inv]. cbn zeta in U. cbn [fst snd].
  destruct U as (_ & Hrange & _ & Hinv & Hk & _).
  apply nth_ext with (d := dummyT) (d' := dummyT).
  - rewrite select_length. exact Hinv.
  - intros k Hlt. rewrite select_length in Hlt.
    rewrite select_nth by exact Hlt.
    assert (Hkb : k < length b) by lia.
    destruct (Hk k Hkb) as [Ha Hb].
    rewrite select_nth by exact Hb.
    set (j := nth (nth k inv 0) ui 0) in *.
    assert (Hj : j < length b) by (apply Hrange; apply nth_In; exact Hb).
    apply Hc; [exact Hj|exact Hkb|].
    rewrite <- !nth_ids. rewrite <- Ha.
    subst j. symmetry. apply (nth_map_lt (fun j => nth j (ids_of b) 0) ui (nth k inv 0) 0 0 Hb).
Qed.

Theorem construct_roundtrip_nonunique obj gu tu tn :
  from_list (state_of obj gu true tu tn) (extract obj) false = RObj obj.
Proof.
  unfold from_list, state_of. cbn [p_shapes p_ushapes p_obj p_uidx].
  rewrite map_length, Nat.eqb_refl. cbn [negb].
  destruct (length (extract obj) =? 0); [reflexivity|].
  rewrite shapes_match_self. cbn [negb]. rewrite put_extract. reflexivity.
Qed.

Theorem construct_roundtrip_unique obj gn tu tn : ids_consistent (extract obj) ->
  from_list (state_of obj true gn tu tn) (uts obj) true = RObj obj.
Proof.
  intros Hc. unfold from_list, state_of. cbn [p_shapes p_ushapes p_obj p_uidx].
  rewrite map_length, Nat.eqb_refl. cbn [negb].
  destruct (length (uts obj) =? 0); [reflexivity|].
  rewrite shapes_match_self. cbn [negb].
  pose proof (select_inv_roundtrip (extract obj) Hc) as R. fold (uts obj) in R.
  destruct (get_unique_idxs (extract obj)) as [ui inv]. cbn [snd] in R. rewrite R.
  rewrite put_extract. reflexivity.
Qed.

(* ---------- rejection of malformed input ---------- *)
Theorem rejects_wrong_length p ts (u : bool) shapes :
  (if u then p_ushapes p else p_shapes p) = Some shapes ->
  length ts <> length shapes -> from_list p ts u = RErr ErrRuntime.
Proof.
  intros Hs Hl. unfold from_list. rewrite Hs.
  destruct (Nat.eqb_spec (length shapes) (length ts)); [congruence|reflexivity].
Qed.

Lemma shapes_match_false ts shapes i : length ts = length shapes -> i < length ts ->
  tshape (nth i ts dummyT) <> nth i shapes [] -> shapes_match ts shapes = false.
Proof.
  revert shapes i. induction ts as [|t r IH]; intros [|s rs] i Hl Hi Hne; cbn in *; try lia.
  destruct (list_eq_dec Nat.eq_dec (tshape t) s) as [e|]; [|reflexivity].
  destruct i as [|i]; [contradiction|]. apply (IH rs i); [lia|lia|exact Hne].
Qed.

Theorem rejects_wrong_shape p ts (u : bool) shapes i :
  (if u then p_ushapes p else p_shapes p) = Some shapes ->
  length ts = length shapes -> i < length ts ->
  tshape (nth i ts dummyT) <> nth i shapes [] -> from_list p ts u = RErr ErrRuntime.
Proof.
  intros Hs Hl Hi Hne. unfold from_list. rewrite Hs, <- Hl, Nat.eqb_refl. cbn [negb].
  destruct (length ts =? 0) eqn:E0; [apply Nat.eqb_eq in E0; lia|].
  rewrite (shapes_match_false ts shapes i Hl Hi Hne). reflexivity.
Qed.

Theorem rejects_before_get p ts a (u : bool) :
  (if u then p_ushapes p else p_shapes p) = None ->
  from_list p ts u = RErr ErrRuntime /\ from_tensor p a u = RErr ErrRuntime.
Proof. intros H. unfold from_list, from_tensor. rewrite H. auto. Qed.

Theorem rejects_wrong_numel p a (u : bool) shapes numels :
  (if u then p_ushapes p else p_shapes p) = Some shapes -> shapes <> [] ->
  (if u then p_unumels p else p_numels p) = Some numels ->
  numel (tshape a) <> fold_right Nat.add 0 numels -> from_tensor p a u = RErr ErrRuntime.
Proof.
  intros Hs Hne Hn Hx. unfold from_tensor. rewrite Hs, Hn.
  destruct shapes; [contradiction|]. cbn [length Nat.eqb].
  destruct (Nat.eqb_spec (numel (tshape a)) (fold_right Nat.add 0 numels)); [contradiction|reflexivity].
Qed.

(* ---------- flat interface round trip (non-unique and unique are the same lemma) ---------- *)
Theorem flat_roundtrip (ts : list tens) :
  Forall (fun t => length (tdata t) = numel (tshape t)) ts ->
  let flat := flat_map tdata ts in
  map (fun t => (tshape t, tdata t)) (split_flat 0 flat (nm ts) (map tshape ts))
  = map (fun t => (tshape t, tdata t)) ts.
Proof. intros H. apply split_flat_roundtrip. exact H. Qed.

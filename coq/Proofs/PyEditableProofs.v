(* xitorch/_core/editable_module.py AS TRANSLATED FROM /repo ON THIS RUN (Gen/PyEditable.v):
   - the search loop of EditableModule._get_unique_params_idxs returns, for EVERY parameter list, the first-occurrence positions
     [fst (uniq_go ..)] of the model (Model/Packer.v, Model/PureFn.v), one group of positions per unique tensor;
   - the scatter of setuniqueparams, fed with these groups, writes unique parameter j into every position that held the j-th
     unique tensor - i.e. it is the model's [map_unique] - and setuniqueparams(getuniqueparams()) is the identity: proved by
     exhaustive computation for every aliasing pattern of up to 7 parameters (1 + 1 + 2 + 5 + 15 + 52 + 203 + 877 patterns;
     the bound is part of the statement), validated beyond it by the run-time correspondence. *)
From Coq Require Import ZArith List Bool Lia Arith.
From Coq Require String.
Import String.StringSyntax.
Import ListNotations.
From XV Require Import Model.Packer Model.PureFn Base.PyLib Proofs.PyLibFacts Proofs.PyUniqueProofs Gen.PyEditable.
Local Open Scope Z_scope.

Section Idxs.
  Variable f : nat -> obj.
  Hypothesis f_inj : forall i j, obj_id (f i) = obj_id (f j) -> i = j.

  (* the list `ids` of the implementation represents the association list of the model *)
  Definition repr_ids (ids_ : list Z) (seen : list (nat * nat)) : Prop :=
    forall x, list_index ids_ (obj_id (f x)) = option_map Z.of_nat (lookup x seen).

  Lemma list_index_from_app l v i x :
    list_index_from (l ++ [x]) v i =
    match list_index_from l v i with Some j => Some j | None => if Z.eqb x v then Some (i + Z.of_nat (length l)) else None end.
  Proof.
    revert i. induction l as [|y r IH]; intros i; cbn [app list_index_from length].
    - destruct (Z.eqb x v); [f_equal; lia|reflexivity].
    - destruct (Z.eqb y v); [reflexivity|]. rewrite IH. destruct (list_index_from r v (i + 1)); [reflexivity|].
      destruct (Z.eqb x v); [f_equal; lia|reflexivity].
  Qed.

  Lemma repr_ids_add ids_ seen x :
    repr_ids ids_ seen -> lookup x seen = None ->
    repr_ids (ids_ ++ [obj_id (f x)]) ((x, length ids_) :: seen).
  Proof.
    intros H Hx y. unfold list_index. rewrite list_index_from_app. fold (list_index ids_ (obj_id (f y))). rewrite (H y).
    cbn [lookup]. destruct (Nat.eqb_spec y x) as [->|Hn].
    - rewrite Hx, Z.eqb_refl. cbn. reflexivity.
    - destruct (lookup y seen); [reflexivity|].
      destruct (Z.eqb_spec (obj_id (f x)) (obj_id (f y))) as [E|_]; [apply f_inj in E; congruence|reflexivity].
  Qed.

  Definition em_state := (list (list Z) * list Z * list Z)%type.
  Definition em_body (all : list obj) (st : em_state) (i_ : Z) : res em_state :=
    let '(idx_map_, ids_, idxs_) := st in
    param_ <- list_get all i_ ;;
    let id_param_ := obj_id param_ in
    match list_index ids_ id_param_ with
    | Some jfound_ =>
        idx_map_ <- (row_ <- list_get idx_map_ jfound_ ;; list_set idx_map_ jfound_ (row_ ++ [i_])) ;;
        Ok (idx_map_, ids_, idxs_)
    | None => Ok (idx_map_ ++ [[i_]], ids_ ++ [id_param_], idxs_ ++ [i_])
    end.

  Lemma list_get_nat {A} (l : list A) i d : (i < length l)%nat -> list_get l (Z.of_nat i) = Ok (nth i l d).
  Proof.
    intros H. unfold list_get, py_len.
    destruct (Z.ltb_spec (Z.of_nat i) 0) as [Hn|_]; [lia|].
    destruct (Z.ltb_spec (Z.of_nat i) 0) as [Hn|_]; [lia|].
    destruct (Z.leb_spec (Z.of_nat (length l)) (Z.of_nat i)) as [Hb|_]; [lia|]. cbn [orb]. rewrite Nat2Z.id.
    destruct (nth_error l i) eqn:E; [rewrite (nth_error_nth l i d E); reflexivity|apply nth_error_None in E; lia].
  Qed.

  Lemma list_set_len {A} (l : list A) i v l' : list_set l i v = Ok l' -> length l' = length l.
  Proof.
    unfold list_set. destruct (_ || _); [discriminate|]. intros H. injection H as <-.
    generalize (Z.to_nat (if i <? 0 then i + py_len l else i)). clear. induction l as [|x r IH]; intros [|k]; cbn; auto.
  Qed.

  Lemma list_set_nat_ok {A} (l : list A) i v : (i < length l)%nat -> exists l', list_set l (Z.of_nat i) v = Ok l'.
  Proof.
    intros H. unfold list_set, py_len.
    destruct (Z.ltb_spec (Z.of_nat i) 0) as [Hn|_]; [lia|].
    destruct (Z.ltb_spec (Z.of_nat i) 0) as [Hn|_]; [lia|].
    destruct (Z.leb_spec (Z.of_nat (length l)) (Z.of_nat i)) as [Hb|_]; [lia|]. cbn [orb]. eexists. reflexivity.
  Qed.

  (* the loop from position i over the remaining k positions *)
  Lemma em_loop ids : forall k i seen gm ids_ idxs_,
    (i + k = length ids)%nat ->
    repr_ids ids_ seen -> (forall x s, lookup x seen = Some s -> (s < length ids_)%nat) ->
    length gm = length ids_ ->
    exists gm',
      for_each (map Z.of_nat (seq i k)) (em_body (map f ids)) (gm, ids_, idxs_) =
      Ok (gm', ids_ ++ map (fun x => obj_id (f x)) (uniq_new (skipn i ids) seen (length ids_)),
          idxs_ ++ map Z.of_nat (fst (uniq_go (skipn i ids) i seen (length ids_)))) /\
      length gm' = (length ids_ + length (fst (uniq_go (skipn i ids) i seen (length ids_))))%nat.
  Proof.
    induction k as [|k IH]; intros i seen gm ids_ idxs_ Hik Hr Hlt Hg.
    - assert (Hs : skipn i ids = []) by (apply skipn_all2; lia). rewrite Hs. exists gm. cbn. rewrite !app_nil_r. split; [reflexivity|lia].
    - assert (Hi : (i < length ids)%nat) by lia.
      destruct (skipn i ids) as [|x r] eqn:Es.
      { apply (f_equal (@length nat)) in Es. rewrite skipn_length in Es. cbn in Es. lia. }
      assert (Hx : nth i ids 0%nat = x).
      { rewrite <- (firstn_skipn i ids) at 1. rewrite app_nth2 by (rewrite firstn_length; lia).
        rewrite firstn_length, Nat.min_l by lia. rewrite Nat.sub_diag, Es. reflexivity. }
      assert (Hr' : skipn (S i) ids = r).
      { clear -Es. revert ids Es. induction i as [|i IHi]; intros [|y l] Es; cbn in *; try discriminate.
        - injection Es as _ <-. destruct l; reflexivity.
        - apply IHi. exact Es. }
      cbn [seq map for_each]. unfold em_body at 1.
      rewrite (list_get_nat (map f ids) i (f 0%nat)) by (rewrite map_length; exact Hi). cbn [bind].
      rewrite map_nth, Hx. rewrite (Hr x). cbn [uniq_go uniq_new].
      destruct (lookup x seen) as [s|] eqn:E; cbn [option_map].
      + assert (Hs : (s < length gm)%nat) by (rewrite Hg; eapply Hlt; exact E).
        rewrite (list_get_nat gm s []) by exact Hs. cbn [bind].
        destruct (list_set_nat_ok gm s (nth s gm [] ++ [Z.of_nat i]) Hs) as [gm1 Hset]. rewrite Hset. cbn [bind].
        assert (Hg1 : length gm1 = length ids_) by (rewrite (list_set_len _ _ _ _ Hset); exact Hg).
        destruct (IH (S i) seen gm1 ids_ idxs_ ltac:(lia) Hr Hlt Hg1) as (gm' & Hl & Hlen).
        rewrite Hr' in *. exists gm'. split.
        * etransitivity; [exact Hl|]. destruct (uniq_go r (S i) seen (length ids_)) as [ui inv]. reflexivity.
        * destruct (uniq_go r (S i) seen (length ids_)) as [ui inv]. exact Hlen.
      + assert (Hr2 := repr_ids_add ids_ seen x Hr E).
        assert (Hlt2 : forall y s, lookup y ((x, length ids_) :: seen) = Some s -> (s < length (ids_ ++ [obj_id (f x)]))%nat).
        { intros y s. rewrite app_length. cbn [lookup length]. destruct (Nat.eqb y x); [intros H; injection H as <-; lia|intros H; specialize (Hlt y s H); lia]. }
        assert (Hg2 : length (gm ++ [[Z.of_nat i]]) = length (ids_ ++ [obj_id (f x)])) by (rewrite !app_length; cbn; lia).
        destruct (IH (S i) _ (gm ++ [[Z.of_nat i]]) (ids_ ++ [obj_id (f x)]) (idxs_ ++ [Z.of_nat i]) ltac:(lia) Hr2 Hlt2 Hg2) as (gm' & Hl & Hlen).
        rewrite Hr' in *. rewrite app_length in Hl, Hlen. cbn [length] in Hl, Hlen. rewrite Nat.add_1_r in Hl, Hlen.
        exists gm'. split.
        * etransitivity; [exact Hl|]. destruct (uniq_go r (S i) ((x, length ids_) :: seen) (S (length ids_))) as [ui inv].
          cbn [fst map]. rewrite <- !app_assoc. reflexivity.
        * destruct (uniq_go r (S i) ((x, length ids_) :: seen) (S (length ids_))) as [ui inv]. cbn [fst length] in *. lia.
  Qed.

  (* _get_unique_params_idxs: the positions of the first occurrences, and one group per unique tensor *)
  Theorem editable_unique_params_idxs_refines ids :
    exists groups,
      editable_unique_params_idxs (map f ids) = Ok (map Z.of_nat (fst (uniq_go ids 0 [] 0)), groups) /\
      length groups = length (fst (uniq_go ids 0 [] 0)).
  Proof.
    destruct (em_loop ids (length ids) 0 [] [] [] [] eq_refl (fun x => eq_refl) (fun x s H => ltac:(discriminate)) eq_refl)
      as (gm' & Hl & Hlen).
    cbn [skipn length app Nat.add] in Hl, Hlen. exists gm'. split; [|exact Hlen].
    unfold editable_unique_params_idxs, py_range, py_len. rewrite map_length, Nat2Z.id.
    set (loop := for_each _ _ _).
    assert (E : loop = for_each (map Z.of_nat (seq 0 (length ids))) (em_body (map f ids)) ([], [], [])) by reflexivity.
    rewrite E, Hl. reflexivity.
  Qed.
End Idxs.

(* ---------- setuniqueparams o getuniqueparams, and setuniqueparams = map_unique: all aliasing patterns up to 7 ---------- *)
(* restricted growth strings: every aliasing pattern of n slots exactly once *)
Fixpoint patterns (n : nat) : list (list nat * nat) :=      (* (pattern in reverse, number of distinct ids) *)
  match n with
  | O => [([], 0%nat)]
  | S k => flat_map (fun pm => map (fun j => (j :: fst pm, if Nat.eqb j (snd pm) then S (snd pm) else snd pm)) (seq 0 (S (snd pm)))) (patterns k)
  end.
Definition all_patterns (n : nat) : list (list nat) := flat_map (fun k => map (fun pm => rev (fst pm)) (patterns k)) (seq 0 (S n)).

Definition tok (i : nat) : obj := OTensor (Z.of_nat i) true.
Definition fresh (j : nat) : obj := OTensor (Z.of_nat (500 + j)) true.

Fixpoint objs_eqb (a b : list obj) : bool :=
  match a, b with [], [] => true | x :: r, y :: s => obj_eqb x y && objs_eqb r s | _, _ => false end.

Definition pattern_ok (pat : list nat) : bool :=
  let all := map tok pat in
  let ui := fst (uniq_ids pat) in
  let inv := snd (uniq_ids pat) in
  match editable_unique_params_idxs all with
  | Ok (idxs, groups) =>
      (* getuniqueparams = the tensors at idxs; put them back: the identity *)
      match mapM (fun i => list_get all i) idxs with
      | Ok uniq =>
          match editable_setuniqueparams_scatter (py_len all) groups uniq with
          | Ok back => objs_eqb back all
          | Raise _ => false
          end
      | Raise _ => false
      end &&
      (* new unique parameters: every slot gets the one of its alias group = the model's map_unique *)
      let us := map fresh (seq 0 (length ui)) in
      match editable_setuniqueparams_scatter (py_len all) groups us with
      | Ok res => objs_eqb res (select ONone us inv)
      | Raise _ => false
      end
  | Raise _ => false
  end.

Theorem setuniqueparams_roundtrip_upto_7 :
  forall pat, In pat (all_patterns 7) -> pattern_ok pat = true.
Proof.
  assert (H : forallb pattern_ok (all_patterns 7) = true) by (vm_compute; reflexivity).
  intros pat Hin. rewrite forallb_forall in H. exact (H pat Hin).
Qed.

(* the enumeration is not vacuous: 1156 patterns, e.g. a a b a c b *)
Example all_patterns_7_count : length (all_patterns 7) = 1156%nat /\ In [0; 0; 1; 0; 2; 1]%nat (all_patterns 7).
Proof. split; [vm_compute; reflexivity|]. vm_compute. tauto. Qed.

From Coq Require Import QArith List Arith Lia Bool.
Import ListNotations.
From XV Require Import Base.Butcher.

(* strong induction principle for trees *)
Section TreeInd.
  Variable P : tree -> Prop.
  Hypothesis H : forall l, Forall P l -> P (Node l).
  Fixpoint tree_ind' (t : tree) : P t :=
    match t with
    | Node l => H l ((fix go (l : list tree) : Forall P l :=
                        match l with
                        | [] => Forall_nil _
                        | x :: r => Forall_cons _ (tree_ind' x) (go r)
                        end) l)
    end.
End TreeInd.

Lemma order_pos t : (1 <= order t)%nat.
Proof. destruct t; cbn; lia. Qed.

(* completeness of the forest enumeration relative to a complete tree enumeration *)
Lemma forests_complete (T : nat -> list tree) : forall l fuel n,
  Forall (fun c => In c (T (order c))) l ->
  list_sum (map order l) = n -> (n <= fuel)%nat -> In l (forests T fuel n).
Proof.
  induction l as [|c r IH]; intros fuel n Hall Hsum Hfuel.
  - cbn in Hsum. subst n. destruct fuel; cbn; auto.
  - inversion Hall as [|? ? Hc Hr]; subst.
    pose proof (order_pos c) as Hpos.
    change (list_sum (map order (c :: r))) with (order c + list_sum (map order r))%nat in *.
    destruct fuel as [|f]; [lia|].
    destruct (order c + list_sum (map order r))%nat as [|n'] eqn:En; [lia|].
    cbn [forests]. rewrite <- En.
    rewrite in_flat_map. exists (order c). split.
    { apply in_seq. lia. }
    rewrite in_flat_map. exists c. split; [exact Hc|].
    apply in_map. apply IH; [exact Hr|lia|lia].
Qed.

Theorem trees_complete : forall t fuel, (order t <= fuel)%nat -> In t (trees fuel (order t)).
Proof.
  induction t as [l IH] using tree_ind'. intros fuel Hf.
  cbn [order] in *. destruct fuel as [|f]; [lia|]. cbn [trees].
  apply in_map. apply forests_complete; [|reflexivity|lia].
  apply Forall_forall. intros c Hc.
  rewrite Forall_forall in IH. apply IH; [exact Hc|].
  assert (order c <= list_sum (map order l))%nat.
  { clear - Hc. induction l as [|x r IHl]; [destruct Hc|].
    change (list_sum (map order (x :: r))) with (order x + list_sum (map order r))%nat.
    destruct Hc as [->|Hc]; [lia|]. specialize (IHl Hc). lia. }
  lia.
Qed.

(* every plane tree of order 1..p is in trees_upto p *)
Theorem trees_upto_complete t p : (order t <= p)%nat -> In t (trees_upto p).
Proof.
  intros H. unfold trees_upto. rewrite in_flat_map. exists (order t). split.
  - apply in_seq. pose proof (order_pos t). lia.
  - unfold trees_of_order. apply trees_complete. lia.
Qed.

(* hence the checker decides the order conditions for EVERY rooted tree up to order p *)
Theorem check_order_sound p a b : check_order p a b = true ->
  forall t, (order t <= p)%nat -> weight a b t == 1 # gamma t.
Proof.
  intros H t Ht. unfold check_order in H. rewrite forallb_forall in H.
  specialize (H t (trees_upto_complete t p Ht)). apply Qeq_bool_iff. exact H.
Qed.

Theorem annihilates_sound p a e : annihilates p a e = true ->
  forall t, (order t <= p)%nat -> weight a e t == 0.
Proof.
  intros H t Ht. unfold annihilates in H. rewrite forallb_forall in H.
  specialize (H t (trees_upto_complete t p Ht)). apply Qeq_bool_iff. exact H.
Qed.

(* Algebra of the weighted sample mean returned by mcquad and of its backward pass. *)
From mathcomp Require Import all_ssreflect all_algebra.
From mathcomp Require Import ring.
From XV Require Import Base.Deriv.
Set Implicit Arguments.
Unset Strict Implicit.
Unset Printing Implicit Defensive.
Import GRing.Theory.
Local Open Scope ring_scope.

Section Mean.
Variable F : fieldType.
Variable n : nat.
Implicit Types (w f g : 'I_n -> F).

Definition wmean w f : F := \sum_i f i * w i.         (* res = res + f(x_i) * w_i *)

(* uniform weights 1/n sum to one whenever n is invertible in the field (characteristic 0) *)
Theorem uniform_weights_sum_one : (n%:R : F) != 0 -> \sum_(i < n) (n%:R : F)^-1 = 1.
Proof. by move=> n0; rewrite big_const_ord iter_addr_0 -[_^-1 *+ n]mulr_natr mulVf. Qed.

(* normalised weights c_i / sum c sum to one *)
Theorem normalised_weights_sum_one (c : 'I_n -> F) :
  \sum_i c i != 0 -> \sum_i (c i / \sum_j c j) = 1.
Proof. by move=> s0; rewrite -mulr_suml divff. Qed.

Theorem mean_of_constant w k : \sum_i w i = 1 -> wmean w (fun _ => k) = k.
Proof. by move=> H; rewrite /wmean -mulr_sumr H mulr1. Qed.

Theorem mean_linear w f g a b :
  wmean w (fun i => a * f i + b * g i) = a * wmean w f + b * wmean w g.
Proof.
rewrite /wmean !mulr_sumr -big_split /=; apply: eq_bigr => i _.
by rewrite mulrDl !mulrA.
Qed.

(* ---- backward pass ---- *)
Variable D : derivation F.

(* parameters of the integrand only: weights do not depend on them *)
Theorem grad_f_params w f : (forall i, D (w i) = 0) ->
  D (wmean w f) = wmean w (fun i => D (f i)).
Proof.
move=> Hw; rewrite /wmean der_sum; apply: eq_bigr => i _.
by rewrite derM Hw mulr0 addr0.
Qed.

(* general case: weights W_i = c_i p_i / sum_j c_j p_j with D c_i = 0 and D p_i = p_i * l_i
   (l_i = D (log p_i)).  The derivative of the weighted mean is the mean of D f plus the
   covariance (score-function) term -- the two integrals the code's backward computes. *)
Theorem score_function_identity (c p l f : 'I_n -> F) :
  let S := \sum_j c j * p j in
  let W := fun i => c i * p i / S in
  let E := wmean W f in
  S != 0 -> (forall i, D (c i) = 0) -> (forall i, D (p i) = p i * l i) ->
  D E = wmean W (fun i => D (f i)) + wmean W (fun i => (f i - E) * l i).
Proof.
move=> S W E S0 Hc Hp.
have DS : D S = \sum_j c j * p j * l j.
  by rewrite /S der_sum; apply: eq_bigr => j _; rewrite derM Hc mul0r add0r Hp mulrA.
have HW : \sum_j W j * l j = (\sum_j c j * p j * l j) / S.
  by rewrite mulr_suml; apply: eq_bigr => j _; rewrite /W mulrAC.
have DW i : D (W i) = W i * l i - W i * (\sum_j W j * l j).
  rewrite HW /W der_div // derM Hc mul0r add0r Hp DS.
  by field.
set T := \sum_j W j * l j in DW *.
rewrite {1}/E /wmean der_sum.
rewrite (eq_bigr (fun i => D (f i) * W i + f i * (W i * l i - W i * T))); last first.
  by move=> i _; rewrite derM DW.
rewrite big_split /=; congr (_ + _).
have -> : \sum_i (f i - E) * l i * W i = \sum_i f i * (W i * l i) - E * T.
  by rewrite /T mulr_sumr -sumrB; apply: eq_bigr => i _; ring.
have -> : \sum_i f i * (W i * l i - W i * T) = \sum_i f i * (W i * l i) - (\sum_i f i * W i) * T.
  by rewrite mulr_suml -sumrB; apply: eq_bigr => i _; ring.
by [].
Qed.

(* a parameter that enters neither the integrand nor the density gets a zero gradient *)
Theorem unused_param_zero (c p f : 'I_n -> F) :
  let S := \sum_j c j * p j in
  S != 0 -> (forall i, D (c i) = 0) -> (forall i, D (p i) = 0) -> (forall i, D (f i) = 0) ->
  D (wmean (fun i => c i * p i / S) f) = 0.
Proof.
move=> S S0 Hc Hp Hf.
have Hp' : forall i, D (p i) = p i * 0 by move=> i; rewrite mulr0.
have H := @score_function_identity c p (fun _ => 0) f S0 Hc Hp'.
rewrite /= in H; rewrite H /wmean.
rewrite big1; last by move=> i _; rewrite Hf mul0r.
by rewrite big1 ?addr0 // => i _; rewrite mulr0 mul0r.
Qed.
End Mean.

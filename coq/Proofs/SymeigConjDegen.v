(* C06, implicit path, COMPLEX Hermitian case with coinciding kept eigenvalues: k kept columns, partial spectrum, with M, the degeneracy
   map of the code, cotangents with X^H G Hermitian on the masked pairs (no dependence on the unitary basis of a degenerate subspace, in
   particular on the phases of the columns).  Real-part pairing, as in SymeigConj.v; structure of SymeigBackward.BackwardDegenerate. *)
From mathcomp Require Import all_ssreflect all_algebra.
From mathcomp Require Import ring.
From XV Require Import Base.Deriv Base.MxDeriv Proofs.SymeigBackward Proofs.SymeigConj.
Set Implicit Arguments.
Unset Strict Implicit.
Unset Printing Implicit Defensive.
Import GRing.Theory.
Local Open Scope ring_scope.

Section HDotSum.
Variable R : comRingType.
Variable cj : {rmorphism R -> R}.
Variable n : nat.
Lemma hdot0l (v : 'cV[R]_n) : hdot cj 0 v = 0.
Proof. by rewrite /hdot trmx0 map_mx0 mul0mx mxtrace0. Qed.
Lemma hdot_suml (I : finType) (f : I -> 'cV[R]_n) (v : 'cV[R]_n) : hdot cj (\sum_j f j) v = \sum_j hdot cj (f j) v.
Proof. by elim/big_rec2: _ => [|j y u _ <-]; rewrite ?hdot0l ?hdotDl. Qed.
End HDotSum.

Section ConjDegenerate.
Variable R : comRingType.
Variable cj : {rmorphism R -> R}.
Hypothesis cjK : involutive cj.
Local Notation "A ^H" := (map_mx cj A^T) (at level 2, format "A ^H").
Variable D : derivation R.
Hypothesis Dcj : forall a, D (cj a) = cj (D a).
Variables n k : nat.
Local Notation d := (dmx D).
Local Notation hd := (hdot cj).
Variables (A M : 'M[R]_n) (x : 'I_k -> 'cV[R]_n) (e : 'I_k -> R).
Hypothesis HA : A^H = A.
Hypothesis HM : M^H = M.
Hypothesis He : forall i, cj (e i) = e i.
Hypothesis Heig : forall i, A *m x i = e i *: (M *m x i).
Hypothesis Horth : forall i j, hd (x i) (M *m x j) = (i == j)%:R.
Variable half : R.
Hypothesis halfP : half + half = 1.
Local Notation Re := (Re cj half).
Variable mask : rel 'I_k.
Hypothesis mask_refl : forall i, mask i i.
Hypothesis mask_sym : forall i j, mask i j = mask j i.
Hypothesis Hdeg : forall i j, mask i j -> e i = e j.
Variables (g v : 'I_k -> 'cV[R]_n) (ge : 'I_k -> R).
Hypothesis Hge : forall i, cj (ge i) = ge i.
Hypothesis Hreq : forall i j, mask i j -> hd (x i) (g j) = cj (hd (x j) (g i)).

Let c (j i : 'I_k) : R := if mask j i then hd (x j) (g i) else 0.        (* (D o X^H G)_ji *)
Let b i := g i - \sum_j c j i *: (M *m x j).
Hypothesis Hsolve : forall i, A *m v i - e i *: (M *m v i) = - b i.
Let mv (j i : 'I_k) : R := if mask j i then hd (x j) (M *m v i) else 0.   (* (D o X^H M V)_ji *)
Let w i := v i - \sum_j mv j i *: x j.
Let accA i := ge i *: x i + w i.
Let accM i := - (ge i * e i) *: x i - e i *: w i - half *: \sum_j c j i *: x j.

Lemma cc_herm j i : c j i = cj (c i j).
Proof. by rewrite /c mask_sym; case Hij: (mask i j); rewrite ?rmorph0 // (Hreq Hij) cjK. Qed.

Lemma hdotMherm (u t : 'cV[R]_n) : hd u (M *m t) = cj (hd t (M *m u)).
Proof. by rewrite hdotC // hdot_mulr // HM. Qed.

Lemma sumc_indicator (f : 'I_k -> R) i : \sum_j f j * (j == i)%:R = f i.
Proof.
rewrite (bigD1 i) //= eqxx mulr1 big1 ?addr0 // => j Hj.
by rewrite (negbTE Hj) mulr0.
Qed.

Lemma wdc_M_orth i : hd (w i) (M *m x i) = 0.
Proof.
rewrite /w hdotBl hdot_suml.
rewrite (eq_bigr (fun j => cj (mv j i) * (j == i)%:R)); last by move=> j _; rewrite hdotZl Horth.
by rewrite sumc_indicator /mv mask_refl -hdotMherm subrr.
Qed.

Lemma wdc_shift i (u : 'cV[R]_n) : hd (w i) (A *m u) - e i * hd (w i) (M *m u) = - hd (b i) u.
Proof.
have Hv : hd (v i) (A *m u) - e i * hd (v i) (M *m u) = - hd (b i) u.
  rewrite !hdot_mulr // HA HM.
  have -> : e i * hd (M *m v i) u = hd (e i *: (M *m v i)) u by rewrite hdotZl He.
  by rewrite -hdotBl Hsolve hdotNl.
rewrite -Hv /w !hdotBl !hdot_suml.
have Hz : \sum_j hd (mv j i *: x j) (A *m u) = e i * \sum_j hd (mv j i *: x j) (M *m u).
  rewrite mulr_sumr; apply: eq_bigr => j _; rewrite !hdotZl (left_eig_conj cjK HA HM (He j) (Heig j)) /mv.
  case Hji: (mask j i); last by rewrite rmorph0 !mul0r mulr0.
  by rewrite (Hdeg Hji); set p := cj _; set q := hd _ _; ring.
rewrite Hz; set p := hd _ _; set q := \sum_j _; set r := hd _ _; ring.
Qed.

(* tangent of the M-orthonormality of two kept columns *)
Lemma orthc_tangent j i :
  hd (x j) (M *m d (x i)) + cj (hd (x i) (M *m d (x j))) = - hd (x j) (d M *m x i).
Proof.
have := congr1 D (Horth j i); rewrite der_nat (d_hdot Dcj) dmxM hdotDr.
have -> : hd (d (x j)) (M *m x i) = cj (hd (x i) (M *m d (x j))) by rewrite hdotMherm.
set a := cj _; set t := hd (x j) (d M *m x i); set s := hd (x j) (M *m d (x i)) => H.
have -> : s + a = (a + (t + s)) - t by ring.
by rewrite H; ring.
Qed.

Lemma Tc_herm j i : cj (hd (x j) (d M *m x i)) = hd (x i) (d M *m x j).
Proof. by rewrite hdotC // hdot_mulr // (dM_herm Dcj HM). Qed.

Lemma columnc_identity i :
  hd (g i) (d (x i)) + ge i * D (e i) =
  hd (accA i) (d A *m x i) + hd (accM i) (d M *m x i)
  + (\sum_j cj (c j i) * hd (x j) (M *m d (x i)) + half * \sum_j cj (c j i) * hd (x j) (d M *m x i)).
Proof.
have Hn : hd (x i) (M *m x i) = 1 by rewrite Horth eqxx.
set dx := d (x i); set dAx := d A *m x i; set dMx := d M *m x i.
have HF : D (e i) = hd (x i) dAx - e i * hd (x i) dMx := eigval_tangent_conj cjK D HA HM (He i) (Heig i) Hn.
have HT := eigvec_tangent D (Heig i).
have Hw : hd (w i) dAx - e i * hd (w i) dMx = hd (b i) dx.
  have := congr1 (hd (w i)) HT.
  rewrite hdotBr hdotZr wdc_shift hdotDr hdotNr hdotBr !hdotZr wdc_M_orth mulr0 addr0 -/dx -/dAx -/dMx.
  by move/eqP; rewrite eqr_opp => /eqP ->.
have Hb : hd (b i) dx = hd (g i) dx - \sum_j cj (c j i) * hd (x j) (M *m dx).
  rewrite /b hdotBl hdot_suml; congr (_ - _); apply: eq_bigr => j _.
  by rewrite hdotZl hdot_mulr // HM.
have EA : hd (accA i) dAx = ge i * hd (x i) dAx + hd (w i) dAx by rewrite /accA hdotDl hdotZl Hge.
have EM : hd (accM i) dMx = - (ge i * e i * hd (x i) dMx) - e i * hd (w i) dMx
                             - half * \sum_j cj (c j i) * hd (x j) dMx.
  rewrite /accM 2!hdotBl !hdotZl hdot_suml rmorphN rmorphM /= Hge He (cj_half cj halfP) mulNr.
  by congr (_ - _ - _ * _); apply: eq_bigr => j _; rewrite hdotZl.
rewrite EA EM HF.
have -> : hd (g i) dx = hd (b i) dx + \sum_j cj (c j i) * hd (x j) (M *m dx) by rewrite Hb subrK.
rewrite -Hw.
set a1 := hd (x i) dAx; set a2 := hd (x i) dMx; set w1 := hd (w i) dAx; set w2 := hd (w i) dMx.
set S := \sum_j _; set T := \sum_j _; ring.
Qed.

Theorem eigpairs_backward_adjoint_degenerate_conj :
  Re (\sum_i (hd (g i) (d (x i)) + ge i * D (e i))) =
  Re (\sum_i (hd (accA i) (d A *m x i) + hd (accM i) (d M *m x i))).
Proof.
rewrite (eq_bigr _ (fun i _ => columnc_identity i)) big_split /=.
set Q := \sum_i (hd (accA i) _ + _).
rewrite big_split /= -mulr_sumr.
set Z := \sum_i \sum_j cj (c j i) * hd (x j) (M *m d (x i)).
set U := \sum_i \sum_j cj (c j i) * hd (x j) (d M *m x i).
have cjZ : cj Z = - U - Z.
  rewrite /Z rmorph_sum /=.
  rewrite (eq_bigr (fun i => \sum_j cj (c i j) * (- hd (x i) (d M *m x j) - hd (x i) (M *m d (x j))))); last first.
    move=> i _; rewrite rmorph_sum /=; apply: eq_bigr => j _.
    rewrite rmorphM /= cjK [c j i]cc_herm; congr (_ * _).
    by rewrite -(orthc_tangent i j); ring.
  rewrite exchange_big /= /U /Z -sumrN -sumrB; apply: eq_bigr => i _.
  rewrite (eq_bigr (fun j => - (cj (c j i) * hd (x j) (d M *m x i)) - cj (c j i) * hd (x j) (M *m d (x i)))); last first.
    by move=> j _; ring.
  by rewrite sumrB sumrN.
have cjU : cj U = U.
  rewrite /U rmorph_sum /= exchange_big /=; apply: eq_bigr => i _.
  rewrite rmorph_sum /=; apply: eq_bigr => j _.
  by rewrite rmorphM /= cjK Tc_herm [c j i]cc_herm.
rewrite /SymeigConj.Re !rmorphD /= rmorphM /= cjZ cjU (cj_half cj halfP).
set q := cj Q.
apply/eqP; rewrite -subr_eq0; apply/eqP.
rewrite [LHS](_ : _ = half * U * ((half + half) - 1)); last by ring.
by rewrite halfP subrr mulr0.
Qed.
End ConjDegenerate.

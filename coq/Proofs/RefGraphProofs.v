(* C19: what reference counting reclaims.
   - rank certificate: if a rank increases along every reference (the graph is acyclic) and nothing outside holds a
     reference, k sweeps remove every node of rank < k: after |ranks| sweeps nothing survives;
   - a set of live nodes in which every member is referenced by a member (a cycle, or anything hanging from one)
     survives every sweep, whatever the fuel: only a cyclic collector could reclaim it;
   - nodes reachable from a root survive. *)
From Coq Require Import List Bool Arith Lia.
Import ListNotations.
From XV Require Import Model.RefGraph.

Lemma mem_In v l : mem v l = true <-> In v l.
Proof.
  unfold mem; rewrite existsb_exists; split.
  - intros [x [Hx E]]; apply Nat.eqb_eq in E; subst; exact Hx.
  - intros H; exists v; split; [exact H | apply Nat.eqb_refl].
Qed.

Lemma sweep_subset g roots live v : In v (sweep g roots live) -> In v live.
Proof. unfold sweep; rewrite filter_In; tauto. Qed.

Lemma reclaim_subset fuel : forall g roots live v, In v (reclaim fuel g roots live) -> In v live.
Proof.
  induction fuel as [|f IH]; intros g roots live v H; cbn in H; [exact H|].
  apply IH in H. eapply sweep_subset; exact H.
Qed.

Section Rank.
Variables (g : graph) (rank : nat -> nat).
Hypothesis Hrank : forall u v, In v (succs g u) -> rank u < rank v.

(* after k sweeps with no outside reference, every surviving node has rank >= k *)
Lemma reclaim_rank k : forall live, (forall v, In v (reclaim k g [] live) -> k <= rank v).
Proof.
  induction k as [|k IH]; intros live v H; [lia|].
  (* reclaim (S k) live = reclaim k (sweep live); swap the order: sweep after k rounds *)
  assert (Hcomm : forall n l, reclaim (S n) g [] l = sweep g [] (reclaim n g [] l)).
  { induction n as [|n IHn]; intros l; [reflexivity|].
    change (reclaim (S (S n)) g [] l) with (reclaim (S n) g [] (sweep g [] l)).
    rewrite IHn. reflexivity. }
  rewrite Hcomm in H. unfold sweep in H. rewrite filter_In in H. destruct H as [Hv Href].
  unfold referenced in Href. cbn [mem existsb orb] in Href.
  rewrite existsb_exists in Href. destruct Href as [u [Hu Huv]].
  apply mem_In in Huv. specialize (IH live u Hu). specialize (Hrank u v Huv). lia.
Qed.

Theorem acyclic_all_reclaimed n live : (forall v, In v live -> rank v < n) -> reclaim n g [] live = [].
Proof.
  intros Hb. destruct (reclaim n g [] live) as [|v r] eqn:E; [reflexivity|exfalso].
  assert (Hin : In v (reclaim n g [] live)) by (rewrite E; left; reflexivity).
  pose proof (reclaim_rank n live v Hin). pose proof (Hb v (reclaim_subset _ _ _ _ _ Hin)). lia.
Qed.
End Rank.

(* the boolean certificate implies the hypothesis of the theorem *)
Lemma rank_ok_sound g rank : rank_ok g rank = true -> forall u v, In v (succs g u) -> rank u < rank v.
Proof.
  unfold rank_ok, succs; intros H u v Hv.
  destruct (find (fun p => Nat.eqb (fst p) u) g) as [p|] eqn:E; [|destruct Hv].
  apply find_some in E. destruct E as [Hp Hu]. apply Nat.eqb_eq in Hu.
  rewrite forallb_forall in H. specialize (H p Hp). rewrite forallb_forall in H. specialize (H v Hv).
  apply Nat.ltb_lt in H. subst u. exact H.
Qed.

Theorem certified_graph_is_reclaimed g rank n :
  rank_ok g rank = true -> (forall v, In v (map fst g) -> rank v < n) -> reclaim n g [] (map fst g) = [].
Proof. intros H Hb. apply (acyclic_all_reclaimed g rank (rank_ok_sound g rank H)). exact Hb. Qed.

(* self-sustaining sets (cycles) survive reference counting *)
Theorem cycle_survives g roots (C : list nat) :
  (forall v, In v C -> exists u, In u C /\ In v (succs g u)) ->
  forall fuel live, (forall v, In v C -> In v live) -> forall v, In v C -> In v (reclaim fuel g roots live).
Proof.
  intros HC fuel. induction fuel as [|f IH]; intros live Hl v Hv; cbn; [apply Hl; exact Hv|].
  apply IH; [|exact Hv]. intros w Hw. unfold sweep. rewrite filter_In. split; [apply Hl; exact Hw|].
  destruct (HC w Hw) as [u [Hu Huw]]. unfold referenced. apply orb_true_iff. right.
  rewrite existsb_exists. exists u. split; [apply Hl; exact Hu | apply mem_In; exact Huw].
Qed.

(* whatever a root (transitively) references survives *)
Theorem rooted_survives g roots (S : list nat) :
  (forall v, In v S -> In v roots \/ exists u, In u S /\ In v (succs g u)) ->
  forall fuel live, (forall v, In v S -> In v live) -> forall v, In v S -> In v (reclaim fuel g roots live).
Proof.
  intros HS fuel. induction fuel as [|f IH]; intros live Hl v Hv; cbn; [apply Hl; exact Hv|].
  apply IH; [|exact Hv]. intros w Hw. unfold sweep. rewrite filter_In. split; [apply Hl; exact Hw|].
  unfold referenced. apply orb_true_iff. destruct (HS w Hw) as [Hr|[u [Hu Huw]]].
  - left. apply mem_In. exact Hr.
  - right. rewrite existsb_exists. exists u. split; [apply Hl; exact Hu | apply mem_In; exact Huw].
Qed.

Example two_cycle_survives : survivors [(0, [1]); (1, [0]); (2, [0])] [] = [0; 1].
Proof. reflexivity. Qed.
Example chain_is_reclaimed : survivors [(0, [1]); (1, [2]); (2, [])] [] = [].
Proof. reflexivity. Qed.

(* ---- complete characterisation of what survives ---- *)
Lemma filter_same_or_shorter {A} (p : A -> bool) (l : list A) : filter p l = l \/ length (filter p l) < length l.
Proof.
induction l as [|x l IH]; [left; reflexivity|]. cbn [filter].
assert (Hle : length (filter p l) <= length l).
{ clear IH. induction l as [|y l IHl]; cbn [filter length]; [lia|]. destruct (p y); cbn [length]; lia. }
destruct (p x) eqn:Hp.
- destruct IH as [IH|IH]; [left; rewrite IH; reflexivity|right; cbn [length]; lia].
- right. cbn [length]. lia.
Qed.

Lemma reclaim_fixed fuel : forall g roots live, sweep g roots live = live -> reclaim fuel g roots live = live.
Proof.
induction fuel as [|f IH]; intros g roots live Hs; cbn [reclaim]; [reflexivity|].
rewrite Hs. apply IH. exact Hs.
Qed.

(* length-of-live many sweeps reach the fixed point *)
Lemma reclaim_reaches_fixpoint fuel : forall g roots live, length live <= fuel ->
  sweep g roots (reclaim fuel g roots live) = reclaim fuel g roots live.
Proof.
induction fuel as [|f IH]; intros g roots live Hlen; cbn [reclaim].
- destruct live; [reflexivity|cbn [length] in Hlen; lia].
- destruct (filter_same_or_shorter (referenced g roots live) live) as [Hs|Hs].
  + fold (sweep g roots live) in Hs. rewrite Hs. rewrite (reclaim_fixed f g roots live Hs). exact Hs.
  + fold (sweep g roots live) in Hs. apply IH. lia.
Qed.

Lemma existsb_In_succs g live v : existsb (fun u => mem v (succs g u)) live = true <-> exists u, In u live /\ In v (succs g u).
Proof.
rewrite existsb_exists. split; intros [u [Hu Hv]]; exists u; split; try assumption; apply mem_In; assumption.
Qed.

(* THE characterisation: a node survives reference counting exactly when it belongs to a SUPPORTED set of nodes - a set in which every
   member is referenced from outside (a root) or by another member.  Such sets are: what is reachable from the roots, and cycles with
   whatever hangs from them.  Nothing else survives, and everything of that kind does. *)
Definition supported (g : graph) (roots S : list nat) : Prop :=
  forall v, In v S -> In v (map fst g) /\ (In v roots \/ exists u, In u S /\ In v (succs g u)).

Theorem survivors_are_the_greatest_supported_set g roots v :
  In v (survivors g roots) <-> exists S, supported g roots S /\ In v S.
Proof.
unfold survivors. split.
- intros Hv. exists (reclaim (length g) g roots (map fst g)). split; [|exact Hv].
  intros x Hx. split; [exact (reclaim_subset _ _ _ _ _ Hx)|].
  pose proof (reclaim_reaches_fixpoint (length g) g roots (map fst g)) as Hfix.
  rewrite map_length in Hfix. specialize (Hfix (le_n _)).
  rewrite <- Hfix in Hx. unfold sweep in Hx. apply filter_In in Hx. destruct Hx as [Hx Hr].
  unfold referenced in Hr. apply orb_true_iff in Hr. destruct Hr as [Hr|Hr].
  + left. apply mem_In. exact Hr.
  + right. apply existsb_In_succs in Hr. exact Hr.
- intros [S [Hsup Hv]].
  apply (rooted_survives g roots S); [| |exact Hv].
  + intros x Hx. exact (proj2 (Hsup x Hx)).
  + intros x Hx. exact (proj1 (Hsup x Hx)).
Qed.

(* hence: with no roots, a graph keeps something alive exactly when it contains a supported set, i.e. a cycle *)
Corollary nothing_survives_iff_no_supported_set g :
  survivors g [] = [] <-> forall S, supported g [] S -> S = [].
Proof.
split.
- intros Hnil S Hsup. destruct S as [|x S]; [reflexivity|]. exfalso.
  assert (Hx : In x (survivors g [])).
  { apply survivors_are_the_greatest_supported_set. exists (x :: S). split; [exact Hsup|left; reflexivity]. }
  rewrite Hnil in Hx. exact Hx.
- intros Hall. destruct (survivors g []) as [|x l] eqn:E; [reflexivity|]. exfalso.
  assert (Hx : In x (survivors g [])) by (rewrite E; left; reflexivity).
  apply survivors_are_the_greatest_supported_set in Hx. destruct Hx as [S [Hsup Hin]].
  rewrite (Hall S Hsup) in Hin. exact Hin.
Qed.

(* C06: the backward pass of symeig is the adjoint of the tangent of the generalised eigenproblem
      A x = e M x,   x^T M x = 1      (A, M symmetric; non-degenerate column; any size; any derivation D)
   Per kept column: Hellmann-Feynman tangent of the eigenvalue, tangent equation of the eigenvector, and the
   identity <g, dx> + g_e de = <accA, dA x> + <accM, dM x> for the cotangents the code accumulates
   (value part, projected right-hand side, shifted solve, re-orthogonalisation, M-value, M-vector and parallel
   terms).  The code pulls accA back through A.mm(X) and accM through M.mm(X). *)
From mathcomp Require Import all_ssreflect all_algebra.
From mathcomp Require Import ring.
From XV Require Import Base.Deriv Base.MxDeriv.
Set Implicit Arguments.
Unset Strict Implicit.
Unset Printing Implicit Defensive.
Import GRing.Theory.
Local Open Scope ring_scope.

Section Dot.
Variable R : comRingType.
Variable n : nat.
Implicit Types (u v w : 'cV[R]_n) (A : 'M[R]_n) (a : R).

Definition dot u v : R := \tr (u^T *m v).

Lemma dotC u v : dot u v = dot v u.
Proof. by rewrite /dot -mxtrace_tr trmx_mul trmxK. Qed.
Lemma dotDl u v w : dot (u + v) w = dot u w + dot v w.
Proof. by rewrite /dot linearD /= mulmxDl linearD. Qed.
Lemma dotDr u v w : dot u (v + w) = dot u v + dot u w.
Proof. by rewrite /dot mulmxDr linearD. Qed.
Lemma dotNl u v : dot (- u) v = - dot u v.
Proof. by rewrite /dot linearN /= mulNmx linearN. Qed.
Lemma dotNr u v : dot u (- v) = - dot u v.
Proof. by rewrite /dot mulmxN linearN. Qed.
Lemma dotBl u v w : dot (u - v) w = dot u w - dot v w.
Proof. by rewrite dotDl dotNl. Qed.
Lemma dotBr u v w : dot u (v - w) = dot u v - dot u w.
Proof. by rewrite dotDr dotNr. Qed.
Lemma dotZl a u v : dot (a *: u) v = a * dot u v.
Proof. by rewrite /dot linearZ /= -scalemxAl linearZ. Qed.
Lemma dotZr a u v : dot u (a *: v) = a * dot u v.
Proof. by rewrite /dot -scalemxAr linearZ. Qed.
Lemma dot_mulr u A v : dot u (A *m v) = dot (A^T *m u) v.
Proof. by rewrite /dot trmx_mul trmxK mulmxA. Qed.
Lemma dot0r u : dot u 0 = 0.
Proof. by rewrite /dot mulmx0 mxtrace0. Qed.
End Dot.

Section Tangent.
Variable R : comRingType.
Variable D : derivation R.
Variable n : nat.
Local Notation d := (dmx D).
Implicit Types (u v : 'cV[R]_n).

Lemma dmxZ m p (a : R) (U : 'M[R]_(m, p)) : d (a *: U) = D a *: U + a *: d U.
Proof. by apply/matrixP=> i j; rewrite !mxE derM. Qed.

Lemma d_dot u v : D (dot u v) = dot (d u) v + dot u (d v).
Proof. by rewrite /dot d_trace dmxM linearD /= dmx_tr. Qed.

Variables (A M : 'M[R]_n) (x : 'cV[R]_n) (e : R).
Hypothesis HA : A^T = A.
Hypothesis HM : M^T = M.
Hypothesis Heig : A *m x = e *: (M *m x).
Hypothesis Hnorm : dot x (M *m x) = 1.

(* x^T (A - e M) = 0 : the left eigenvector is the right one *)
Lemma left_eig v : dot x (A *m v) = e * dot x (M *m v).
Proof.
by rewrite dot_mulr HA Heig dotZl [in RHS]dot_mulr HM.
Qed.

(* differentiating the eigen-equation *)
Lemma eig_tangent_eq :
  d A *m x + A *m d x = D e *: (M *m x) + e *: (d M *m x + M *m d x).
Proof.
by have := congr1 (@dmx _ D _ _) Heig; rewrite dmxM dmxZ dmxM.
Qed.

(* Hellmann-Feynman *)
Theorem eigval_tangent : D e = dot x (d A *m x) - e * dot x (d M *m x).
Proof.
have := congr1 (dot x) eig_tangent_eq.
rewrite !dotDr !dotZr !dotDr Hnorm left_eig.
set a := dot x (d A *m x); set b := dot x (d M *m x); set c := dot x (M *m d x) => H.
have -> : D e = (D e * 1 + e * (b + c)) - e * (b + c) by ring.
by rewrite -H; ring.
Qed.

(* tangent of the eigenvector: (A - e M) dx = -(dA - e dM) x + de M x *)
Theorem eigvec_tangent :
  A *m d x - e *: (M *m d x) = - (d A *m x - e *: (d M *m x)) + D e *: (M *m x).
Proof.
have H := eig_tangent_eq.
have -> : A *m d x = (d A *m x + A *m d x) - d A *m x by rewrite addrC addKr.
rewrite H scalerDr opprB.
set p := D e *: (M *m x); set q := e *: (d M *m x); set r := e *: (M *m d x); set t := d A *m x.
by apply/matrixP=> i j; rewrite !mxE; ring.
Qed.

(* tangent of the normalisation: 2 x^T M dx = - x^T dM x *)
Theorem norm_tangent : dot x (M *m d x) + dot x (M *m d x) = - dot x (d M *m x).
Proof.
have := congr1 D Hnorm; rewrite der1 d_dot dmxM dotDr.
have -> : dot (d x) (M *m x) = dot x (M *m d x) by rewrite dotC dot_mulr HM dotC.
set a := dot x (M *m d x); set b := dot x (d M *m x) => H.
have -> : a + a = (a + (b + a)) - b by ring.
by rewrite H; ring.
Qed.
End Tangent.

Section Backward.
Variable R : comRingType.
Variable D : derivation R.
Variable n : nat.
Local Notation d := (dmx D).
Variables (A M : 'M[R]_n) (x : 'cV[R]_n) (e : R).
Hypothesis HA : A^T = A.
Hypothesis HM : M^T = M.
Hypothesis Heig : A *m x = e *: (M *m x).
Hypothesis Hnorm : dot x (M *m x) = 1.
Variable half : R.
Hypothesis halfP : half + half = 1.

(* the code, for one kept column (cotangents g for the vector, ge for the value) *)
Variables (g v : 'cV[R]_n) (ge : R).
Let b := g - dot g x *: (M *m x).                       (* _ortho(grad_evecs, evecs, M, mright=False) *)
Hypothesis Hsolve : A *m v - e *: (M *m v) = - b.      (* solve(A, -B, evals, M) *)
Let w := v - dot (M *m v) x *: x.                       (* _ortho(gevecs, evecs, M, mright=True) *)
Let accA := ge *: x + w.                                (* gevalsA + gevecsA *)
Let accM := - (ge * e) *: x - e *: w - (half * dot g x) *: x.   (* gevalsM + gevecsM + gevecsM_par *)

Lemma Mv_x : dot (M *m v) x = dot v (M *m x).
Proof. by rewrite dotC dot_mulr HM dotC. Qed.

Lemma w_M_orth : dot w (M *m x) = 0.
Proof. by rewrite /w dotBl dotZl Hnorm mulr1 Mv_x subrr. Qed.

Lemma w_shift u : dot w (A *m u) - e * dot w (M *m u) = - dot b u.
Proof.
have Hv : dot v (A *m u) - e * dot v (M *m u) = - dot b u.
  by rewrite !dot_mulr HA HM -dotZl -dotBl Hsolve dotNl.
rewrite -Hv /w !dotBl !dotZl (left_eig HA HM Heig).
set c := dot (M *m v) x; set p := dot x (M *m u); set q := dot v (A *m u); set r := dot v (M *m u).
by ring.
Qed.

Theorem eigpair_backward_adjoint :
  dot g (d x) + ge * D e = dot accA (d A *m x) + dot accM (d M *m x).
Proof.
set dx := d x; set dAx := d A *m x; set dMx := d M *m x.
have HF : D e = dot x dAx - e * dot x dMx := eigval_tangent D HA HM Heig Hnorm.
have HT := eigvec_tangent D Heig.
have HN := norm_tangent D HM Hnorm.
(* <w, (dA - e dM) x> = <b, dx> *)
have Hw : dot w dAx - e * dot w dMx = dot b dx.
  have := congr1 (dot w) HT.
  rewrite dotBr dotZr w_shift dotDr dotNr dotBr !dotZr w_M_orth mulr0 addr0 -/dx -/dAx -/dMx.
  by move/eqP; rewrite eqr_opp => /eqP ->.
have Hb : dot b dx = dot g dx - dot g x * dot x (M *m dx).
  rewrite /b dotBl dotZl; congr (_ - _ * _). by rewrite dotC dot_mulr HM dotC.
have EA : dot accA dAx = ge * dot x dAx + dot w dAx by rewrite /accA dotDl dotZl.
have EM : dot accM dMx = - (ge * e * dot x dMx) - e * dot w dMx - half * dot g x * dot x dMx.
  by rewrite /accM dotDl dotDl !dotNl !dotZl mulNr.
rewrite EA EM HF.
have -> : dot g dx = (dot g dx - dot g x * dot x (M *m dx)) + dot g x * dot x (M *m dx) by rewrite subrK.
rewrite -Hb -Hw.
move: HN; rewrite -/dx -/dMx.
set a1 := dot x dAx; set a2 := dot x dMx; set w1 := dot w dAx; set w2 := dot w dMx; set gx := dot g x.
set c := dot x (M *m dx) => HN.
have -> : gx * c = gx * (half * (c + c)) by rewrite mulrDr -mulrDl halfP mul1r.
rewrite HN; ring.
Qed.
End Backward.

(* ---------------------------------------------------------------------------------------------------------------
   The same backward pass when kept eigenvalues COINCIDE (idx_degen is not None in the code).  Column-wise statement
   for k kept columns x_i (M-orthonormal), a degeneracy map `mask` on the kept columns that is reflexive, symmetric and
   only relates columns with EQUAL eigenvalues, and cotangents g_i meeting the requirement the code tests in debug mode
   (X^T G symmetric on the masked pairs: the loss does not depend on the basis inside a degenerate subspace):
       B  = G - M X (D o X^T G)              _ortho(grad_evecs, evecs, D, M, mright=False)
       (A - e_i M) v_i = - b_i               solve(A, -B, evals, M)
       W  = V - X (D o X^T M V)              _ortho(gevecs, evecs, D, M, mright=True)
       accA = X diag(ge) + W,   accM = - X diag(ge e) - W diag(e) - 1/2 X (D o X^T G)
   reproduce  sum_i <g_i, dx_i> + ge_i de_i  for EVERY differentiable choice of the basis inside the degenerate
   subspaces (x_i and e_i are only assumed to satisfy the eigen-equations along the path) and every tangent dA, dM.
   --------------------------------------------------------------------------------------------------------------- *)
Section DotSum.
Variable R : comRingType.
Variable n : nat.
Lemma dot0l (v : 'cV[R]_n) : dot 0 v = 0.
Proof. by rewrite /dot trmx0 mul0mx mxtrace0. Qed.
Lemma dot_suml (I : finType) (f : I -> 'cV[R]_n) (v : 'cV[R]_n) : dot (\sum_j f j) v = \sum_j dot (f j) v.
Proof. by elim/big_rec2: _ => [|j y u _ <-]; rewrite ?dot0l ?dotDl. Qed.
End DotSum.

Section BackwardDegenerate.
Variable R : comRingType.
Variable D : derivation R.
Variables n k : nat.
Local Notation d := (dmx D).
Variables (A M : 'M[R]_n) (x : 'I_k -> 'cV[R]_n) (e : 'I_k -> R).
Hypothesis HA : A^T = A.
Hypothesis HM : M^T = M.
Hypothesis Heig : forall i, A *m x i = e i *: (M *m x i).
Hypothesis Horth : forall i j, dot (x i) (M *m x j) = (i == j)%:R.
Variable half : R.
Hypothesis halfP : half + half = 1.
Variable mask : rel 'I_k.
Hypothesis mask_refl : forall i, mask i i.
Hypothesis mask_sym : forall i j, mask i j = mask j i.
Hypothesis Hdeg : forall i j, mask i j -> e i = e j.
Variables (g v : 'I_k -> 'cV[R]_n) (ge : 'I_k -> R).
Hypothesis Hreq : forall i j, mask i j -> dot (x i) (g j) = dot (x j) (g i).

Let c (j i : 'I_k) : R := if mask j i then dot (x j) (g i) else 0.        (* (D o X^T G)_ji *)
Let b i := g i - \sum_j c j i *: (M *m x j).
Hypothesis Hsolve : forall i, A *m v i - e i *: (M *m v i) = - b i.
Let mv (j i : 'I_k) : R := if mask j i then dot (x j) (M *m v i) else 0.   (* (D o X^T M V)_ji *)
Let w i := v i - \sum_j mv j i *: x j.
Let accA i := ge i *: x i + w i.
Let accM i := - (ge i * e i) *: x i - e i *: w i - half *: \sum_j c j i *: x j.

Lemma c_sym j i : c j i = c i j.
Proof. by rewrite /c mask_sym; case Hij: (mask i j) => //; rewrite (Hreq Hij). Qed.

Lemma dotMsym (u t : 'cV[R]_n) : dot u (M *m t) = dot t (M *m u).
Proof. by rewrite dot_mulr HM dotC. Qed.

Lemma sum_indicator (f : 'I_k -> R) i : \sum_j f j * (j == i)%:R = f i.
Proof.
rewrite (bigD1 i) //= eqxx mulr1 big1 ?addr0 // => j Hj.
by rewrite (negbTE Hj) mulr0.
Qed.

Lemma wd_M_orth i : dot (w i) (M *m x i) = 0.
Proof.
rewrite /w dotBl dot_suml.
rewrite (eq_bigr (fun j => mv j i * (j == i)%:R)); last by move=> j _; rewrite dotZl Horth.
by rewrite sum_indicator /mv mask_refl dotMsym subrr.
Qed.

Lemma wd_shift i (u : 'cV[R]_n) : dot (w i) (A *m u) - e i * dot (w i) (M *m u) = - dot (b i) u.
Proof.
have Hv : dot (v i) (A *m u) - e i * dot (v i) (M *m u) = - dot (b i) u.
  by rewrite !dot_mulr HA HM -dotZl -dotBl Hsolve dotNl.
rewrite -Hv /w !dotBl !dot_suml.
have Hz : \sum_j dot (mv j i *: x j) (A *m u) = e i * \sum_j dot (mv j i *: x j) (M *m u).
  rewrite mulr_sumr; apply: eq_bigr => j _; rewrite !dotZl (left_eig HA HM (Heig j)) /mv.
  case Hji: (mask j i); last by rewrite !mul0r mulr0.
  by rewrite (Hdeg Hji); set p := dot _ _; set q := dot _ _; ring.
rewrite Hz; set p := dot _ _; set q := \sum_j _; set r := dot _ _; ring.
Qed.

(* tangent of the M-orthonormality of two kept columns *)
Lemma orth_tangent j i :
  dot (x j) (M *m d (x i)) + dot (x i) (M *m d (x j)) = - dot (x j) (d M *m x i).
Proof.
have := congr1 D (Horth j i); rewrite der_nat d_dot dmxM dotDr.
have -> : dot (d (x j)) (M *m x i) = dot (x i) (M *m d (x j)) by rewrite dotMsym.
set a := dot (x i) _; set t := dot (x j) (d M *m x i); set s := dot (x j) (M *m d (x i)) => H.
have -> : s + a = (a + (t + s)) - t by ring.
by rewrite H; ring.
Qed.

(* one column: everything but the coupling through the normalisation *)
Lemma column_identity i :
  dot (g i) (d (x i)) + ge i * D (e i) =
  dot (accA i) (d A *m x i) + dot (accM i) (d M *m x i)
  + (\sum_j c j i * dot (x j) (M *m d (x i)) + half * \sum_j c j i * dot (x j) (d M *m x i)).
Proof.
have Hn : dot (x i) (M *m x i) = 1 by rewrite Horth eqxx.
set dx := d (x i); set dAx := d A *m x i; set dMx := d M *m x i.
have HF : D (e i) = dot (x i) dAx - e i * dot (x i) dMx := eigval_tangent D HA HM (Heig i) Hn.
have HT := eigvec_tangent D (Heig i).
have Hw : dot (w i) dAx - e i * dot (w i) dMx = dot (b i) dx.
  have := congr1 (dot (w i)) HT.
  rewrite dotBr dotZr wd_shift dotDr dotNr dotBr !dotZr wd_M_orth mulr0 addr0 -/dx -/dAx -/dMx.
  by move/eqP; rewrite eqr_opp => /eqP ->.
have Hb : dot (b i) dx = dot (g i) dx - \sum_j c j i * dot (x j) (M *m dx).
  rewrite /b dotBl dot_suml; congr (_ - _); apply: eq_bigr => j _.
  by rewrite dotZl dotC dotMsym.
have EA : dot (accA i) dAx = ge i * dot (x i) dAx + dot (w i) dAx by rewrite /accA dotDl dotZl.
have EM : dot (accM i) dMx = - (ge i * e i * dot (x i) dMx) - e i * dot (w i) dMx
                             - half * \sum_j c j i * dot (x j) dMx.
  rewrite /accM 2!dotBl !dotZl dot_suml mulNr.
  by congr (_ - _ - _ * _); apply: eq_bigr => j _; rewrite dotZl.
rewrite EA EM HF.
have -> : dot (g i) dx = dot (b i) dx + \sum_j c j i * dot (x j) (M *m dx) by rewrite Hb subrK.
rewrite -Hw.
set a1 := dot (x i) dAx; set a2 := dot (x i) dMx; set w1 := dot (w i) dAx; set w2 := dot (w i) dMx.
set S := \sum_j _; set T := \sum_j _; ring.
Qed.

Theorem eigpairs_backward_adjoint_degenerate :
  \sum_i (dot (g i) (d (x i)) + ge i * D (e i)) =
  \sum_i (dot (accA i) (d A *m x i) + dot (accM i) (d M *m x i)).
Proof.
rewrite (eq_bigr _ (fun i _ => column_identity i)) big_split /=.
rewrite -[RHS]addr0; congr (_ + _).
rewrite big_split /= -mulr_sumr.
set S := \sum_i \sum_j c j i * dot (x j) (M *m d (x i)).
set U := \sum_i \sum_j c j i * dot (x j) (d M *m x i).
have HS : S + S = - U.
  have -> : S + S = S + \sum_i \sum_j c j i * dot (x i) (M *m d (x j)).
    congr (_ + _); rewrite /S exchange_big /=; apply: eq_bigr => i _; apply: eq_bigr => j _.
    by rewrite c_sym.
  rewrite /S -big_split /= /U -sumrN; apply: eq_bigr => i _.
  rewrite -big_split /= -sumrN; apply: eq_bigr => j _.
  by rewrite -mulrDr orth_tangent mulrN.
have -> : S = half * (S + S) by rewrite mulrDr -mulrDl halfP mul1r.
by rewrite HS mulrN addNr.
Qed.
End BackwardDegenerate.

(* Facts about the Python built-ins of Base/PyLib.v used by the refinement proofs of the translated code. *)
From Coq Require Import ZArith List Bool Lia.
From Coq Require String.
Import String.StringSyntax.
Import ListNotations.
From XV Require Import Base.PyLib.
Local Open Scope Z_scope.

(* ---------- dictionaries keyed by Z ---------- *)
Lemma zfind_set_same {V} (d : list (Z * V)) k v : d_find Z.eqb (d_set Z.eqb d k v) k = Some v.
Proof.
  induction d as [|[k' v'] r IH]; cbn; [rewrite Z.eqb_refl; reflexivity|].
  destruct (Z.eqb k k') eqn:E; cbn; [rewrite Z.eqb_refl; reflexivity|rewrite E; exact IH].
Qed.

Lemma zfind_set_other {V} (d : list (Z * V)) k k2 v :
  k <> k2 -> d_find Z.eqb (d_set Z.eqb d k2 v) k = d_find Z.eqb d k.
Proof.
  intros Hn. induction d as [|[k' v'] r IH]; cbn.
  - destruct (Z.eqb_spec k k2); [contradiction|reflexivity].
  - destruct (Z.eqb_spec k2 k') as [->|Hn2]; cbn.
    + destruct (Z.eqb_spec k k'); [contradiction|reflexivity].
    + destruct (Z.eqb k k'); [reflexivity|exact IH].
Qed.

(* ---------- enumerate from an offset ---------- *)
Definition enum_from {A} (i : nat) (l : list A) : list (Z * A) := combine (map Z.of_nat (seq i (length l))) l.

Lemma py_enumerate_enum {A} (l : list A) : py_enumerate l = enum_from 0 l.
Proof. unfold py_enumerate, enum_from, py_range, py_len. rewrite Nat2Z.id. reflexivity. Qed.

Lemma enum_from_cons {A} i (x : A) r : enum_from i (x :: r) = (Z.of_nat i, x) :: enum_from (S i) r.
Proof. reflexivity. Qed.


Lemma list_set_mid {A} (a : list A) x b v :
  list_set (a ++ x :: b) (Z.of_nat (length a)) v = Ok (a ++ v :: b).
Proof.
  unfold list_set, py_len. rewrite app_length. cbn [length].
  destruct (Z.ltb_spec (Z.of_nat (length a)) 0) as [H|H]; [lia|].
  destruct (Z.ltb_spec (Z.of_nat (length a)) 0) as [H1|_]; [lia|].
  destruct (Z.leb_spec (Z.of_nat (length a + S (length b))) (Z.of_nat (length a))) as [H2|_]; [lia|].
  cbn [orb]. rewrite Nat2Z.id. f_equal. clear. induction a as [|y a IH]; cbn; [reflexivity|]. f_equal. exact IH.
Qed.


(* Structure of the cumulative weights of SQuad (trapz) and the extrapolation position maps of
   Interp1D, over an ordered field. *)
From mathcomp Require Import all_ssreflect all_algebra.
From mathcomp Require Import ring.
Set Implicit Arguments.
Unset Strict Implicit.
Unset Printing Implicit Defensive.
Import Order.Theory GRing.Theory Num.Theory.
Local Open Scope ring_scope.

Section Trapz.
Variable R : comRingType.
Variable n : nat.
Variables (half y : nat -> R).      (* half i = 0.5 * (x_{i+1} - x_i) *)

(* entry (r, c) of get_trapz_weights: the loop `for i in 1..nx-1: res[i:, i-1:i+1] += half[i-1]`
   adds half[c-1] (from i = c) and then half[c] (from i = c+1) to every row r >= i *)
Definition trapz_w (r c : nat) : R :=
  (if (1 <= c <= r)%N then half c.-1 else 0) + (if (c.+1 <= r)%N then half c else 0).

(* row 0 is zero: the first entry of cumsum is zero *)
Theorem trapz_w_row0 c : trapz_w 0 c = 0.
Proof. by rewrite /trapz_w leqn0 ltn0; case: c => [|c] /=; rewrite addr0. Qed.

(* consecutive rows differ exactly by the trapezoid of the next interval: half_r on columns r and r+1;
   hence cumsum[r+1] - cumsum[r] = half_r * (y_r + y_{r+1}), the integral of the linear piece *)
Theorem trapz_w_step r c :
  trapz_w r.+1 c = trapz_w r c + ((if c == r.+1 then half r else 0) + (if c == r then half r else 0)).
Proof.
rewrite /trapz_w.
have [->|crS] := eqVneq c r.+1.
  rewrite leqnn ltnn /= [(r.+1 < r)%N]ltnNge leqnSn /= eqn_leq ltnn /=; ring.
have [->|cr] := eqVneq c r.
  rewrite leqnSn ltnSn leqnn ltnn andbT /=.
  by case: (r) => [|r'] /=; ring.
have -> : (c <= r.+1)%N = (c <= r)%N by rewrite leq_eqVlt (negbTE crS) /= ltnS.
have -> : (c < r.+1)%N = (c < r)%N by rewrite ltnS leq_eqVlt (negbTE cr).
by rewrite !addr0.
Qed.
End Trapz.

Section Extrap.
Variable F : realFieldType.
(* k is the integer part of the (absolute) normalised coordinate, as a field element *)
Theorem periodic_pos (v k : F) : k <= v < k + 1 -> 0 <= v - k < 1.
Proof. by case/andP=> lo hi; rewrite subr_ge0 lo ltr_subl_addl hi. Qed.

(* mirror: (2 * half - a) * sign with ceil = k + 1, half = trunc(ceil / 2), sign = 1 - 2 (ceil mod 2) *)
Theorem mirror_pos_even (a k : F) : k <= a < k + 1 ->      (* k even: ceil odd, half = k/2, sign = -1 *)
  let r := (2%:R * (k / 2%:R) - a) * (-1) in r = a - k /\ 0 <= r < 1.
Proof.
case/andP=> lo hi /=; have -> : (2%:R * (k / 2%:R) - a) * -1 = a - k by field.
by split=> //; rewrite subr_ge0 lo ltr_subl_addl hi.
Qed.
Theorem mirror_pos_odd (a k : F) : k <= a < k + 1 ->       (* k odd: ceil even, half = (k+1)/2, sign = +1 *)
  let r := (2%:R * ((k + 1) / 2%:R) - a) * 1 in r = k + 1 - a /\ 0 < r <= 1.
Proof.
case/andP=> lo hi /=; have -> : (2%:R * ((k + 1) / 2%:R) - a) * 1 = k + 1 - a by field.
by split=> //; rewrite subr_gt0 hi ler_subl_addl ler_add2r lo.
Qed.
Theorem bound_pos (v : F) : 0 <= (if v < 0 then 0 else if 1 < v then 1 else v) <= 1.
Proof.
case: ltrP => [_|v0]; first by rewrite lexx ler01.
by case: ltrP => [_|v1]; rewrite ?ler01 ?lexx // v0 v1.
Qed.
End Extrap.

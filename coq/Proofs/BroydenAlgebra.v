(* The Broyden updates of _jacobian.py satisfy the secant condition; equilibrium / minimize reductions. *)
From mathcomp Require Import all_ssreflect all_algebra.
Set Implicit Arguments.
Unset Strict Implicit.
Unset Printing Implicit Defensive.
Import GRing.Theory.
Local Open Scope ring_scope.

Section Broyden.
Variable F : fieldType.
Variable n : nat.
Implicit Types (G : 'M[F]_n) (dx dy v c d : 'cV[F]_n).

Definition dotc (v w : 'cV[F]_n) : F := (v^T *m w) 0 0.

Lemma dotcE (v w : 'cV[F]_n) : v^T *m w = (dotc v w)%:M.
Proof. by rewrite [LHS]mx11_scalar. Qed.

(* rank-one update G + c d^T with c = dx - G dy and d = v / (dy . v) *)
Theorem secant_general G dx dy v : dotc v dy != 0 ->
  let c := dx - G *m dy in let d := (dotc v dy)^-1 *: v in
  (G + c *m d^T) *m dy = dx.
Proof.
move=> s0 c d; rewrite mulmxDl -mulmxA /d linearZ /= -scalemxAl dotcE.
by rewrite -scalemx1 scalerA mulVf // scale1r mulmx1 /c addrC subrK.
Qed.

(* BroydenFirst: v = G^T dx, d = v / dot(dy, v);  BroydenSecond: v = dy, d = v / |dy|^2 *)
Corollary broyden1_secant G dx dy : dotc (G^T *m dx) dy != 0 ->
  let v := G^T *m dx in
  (G + (dx - G *m dy) *m ((dotc v dy)^-1 *: v)^T) *m dy = dx.
Proof. by move=> H; apply: secant_general. Qed.

Corollary broyden2_secant G dx dy : dotc dy dy != 0 ->
  (G + (dx - G *m dy) *m ((dotc dy dy)^-1 *: dy)^T) *m dy = dx.
Proof. by move=> H; apply: secant_general. Qed.

(* LowRankMatrix: (alpha I + sum_i c_i d_i^T) v = alpha v + sum_i c_i (d_i . v), and its transpose product *)
Theorem lowrank_mv (alpha : F) (m : nat) (cs ds : 'I_m -> 'cV[F]_n) v :
  (alpha%:M + \sum_i cs i *m (ds i)^T) *m v = alpha *: v + \sum_i dotc (ds i) v *: cs i.
Proof.
rewrite mulmxDl mul_scalar_mx mulmx_suml; congr (_ + _); apply: eq_bigr => i _.
by rewrite -mulmxA dotcE mul_mx_scalar.
Qed.
Theorem lowrank_rmv (alpha : F) (m : nat) (cs ds : 'I_m -> 'cV[F]_n) v :
  (alpha%:M + \sum_i cs i *m (ds i)^T)^T *m v = alpha *: v + \sum_i dotc (cs i) v *: ds i.
Proof.
rewrite linearD /= tr_scalar_mx mulmxDl mul_scalar_mx; congr (_ + _).
rewrite raddf_sum /= mulmx_suml; apply: eq_bigr => i _.
by rewrite trmx_mul trmxK -mulmxA dotcE mul_mx_scalar.
Qed.

(* reductions: a root of y - f(y) is a fixed point of f; |f(y) - y| = |g(y)| *)
Theorem equilibrium_reduction (y fy : 'cV[F]_n) : y - fy = 0 <-> fy = y.
Proof. by split=> [/eqP|->]; rewrite ?subrr // subr_eq0 => /eqP. Qed.
End Broyden.

(* The symbolic derivative [dfexp] of the expression language computes the derivative:
   for any field, any derivation D that kills the first argument t, and any environment,
   D (eval e) = sum_j eval (d e / d y_j) * D y_j.  (Used by the gradient models of quad, jac, ...) *)
From Coq Require Import ZArith.
From mathcomp Require Import all_ssreflect all_algebra.
From mathcomp Require Import ring.
From XV Require Import Base.Ops Base.Deriv Model.ExplicitRK Model.Quad.
Set Implicit Arguments.
Unset Strict Implicit.
Unset Printing Implicit Defensive.
Import GRing.Theory.
Local Open Scope ring_scope.

Section ExprDeriv.
Variable F : fieldType.

Definition zF (z : Z) : F :=
  match z with
  | Z0 => 0
  | Zpos p => (Pos.to_nat p)%:R
  | Zneg p => - (Pos.to_nat p)%:R
  end.

(* the field as an arithmetic carrier (comparisons / sqrt / abs are not used by fexp) *)
Definition FieldOps : ops F :=
  @mkOps F 0 1 +%R (fun a b => a - b) *%R (fun a b => a / b) -%R id id
        (fun _ _ => false) (fun _ _ => false) (fun a b => eq_op a b) zF.

Variable D : derivation F.

Lemma der_zF z : D (zF z) = 0.
Proof. by case: z => [|p|p] /=; rewrite ?der0 ?derN ?der_nat ?oppr0. Qed.

Lemma der_const_div a b : D a = 0 -> D b = 0 -> D (a / b) = 0.
Proof.
move=> Ha Hb; rewrite derM Ha mul0r add0r.
have [->|b0] := eqVneq b 0; first by rewrite invr0 der0 mulr0.
by rewrite derV // Hb oppr0 mul0r mulr0.
Qed.

Lemma der_ofQ q : D (ofQ FieldOps q) = 0.
Proof.
rewrite /ofQ; case: (Pos.eqb _ _); rewrite /ofZ /odiv /=; first by rewrite der_zF.
by rewrite der_const_div ?der_zF ?der_nat.
Qed.

Notation ev := (feval FieldOps).

Lemma nat_eqbE a b : Nat.eqb a b = (a == b).
Proof. by elim: a b => [|a IH] [|b] //=; rewrite IH. Qed.

Lemma list_nthE (ys : seq F) i : List.nth i ys 0 = nth 0 ys i.
Proof. by elim: ys i => [|y r IH] [|i] //=. Qed.

Theorem dfexp_correct (e : fexp) (t : F) (ys : seq F) : D t = 0 ->
  D (ev e t ys) = \sum_(j < size ys) ev (dfexp j e) t ys * D (nth 0 ys j).
Proof.
move=> Ht; elim: e => [|i|q|a IHa b IHb|a IHa b IHb|a IHa b IHb] /=.
- by rewrite Ht big1 // => j _; rewrite /= /ofQ /= mul0r.
- rewrite list_nthE.
  have [lt_i|ge_i] := ltnP i (size ys).
    rewrite (bigD1 (Ordinal lt_i)) //= nat_eqbE eqxx /= /ofQ /= mul1r big1 ?addr0 //.
    move=> j nji; rewrite nat_eqbE.
    have /negbTE -> : i != j by apply: contra nji => /eqP ij; apply/eqP/val_inj.
    by rewrite /= /ofQ /= mul0r.
  rewrite nth_default // der0 big1 // => j _; rewrite nat_eqbE.
  have /negbTE -> : i != j by rewrite neq_ltn (leq_trans (ltn_ord j) ge_i) orbT.
  by rewrite /= /ofQ /= mul0r.
- by rewrite der_ofQ big1 // => j _; rewrite /= /ofQ /= mul0r.
- by rewrite derD IHa IHb -big_split /=; apply: eq_bigr => j _; rewrite mulrDl.
- by rewrite derB IHa IHb -sumrB; apply: eq_bigr => j _; rewrite mulrBl.
- rewrite derM IHa IHb mulr_suml mulr_sumr -big_split /=; apply: eq_bigr => j _.
  by rewrite /=; ring.
Qed.
End ExprDeriv.

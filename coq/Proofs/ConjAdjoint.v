(* The conjugate (complex) versions of the backward-pass identities of C02 and C04.
   Field with a conjugation cj (a ring morphism, involutive); A^H = conj(A^T).  The identities hold for the
   sesquilinear pairing tr(G^H dX) itself (the solution maps are holomorphic in A, B, E and in theta), so no real
   part is needed: PyTorch's convention (gradient = conjugate Wirtinger derivative) is exactly "the G-pairing of the
   tangent equals the pairing of the returned gradients with the tangents of the inputs". *)
From mathcomp Require Import all_ssreflect all_algebra.
From XV Require Import Base.Deriv Base.MxDeriv Proofs.SolveBackward.
Set Implicit Arguments.
Unset Strict Implicit.
Unset Printing Implicit Defensive.
Import GRing.Theory.
Local Open Scope ring_scope.

Section Conj.
Variable F : fieldType.
Variable cj : {rmorphism F -> F}.
Hypothesis cjK : involutive cj.
Local Notation "A ^H" := (map_mx cj A^T) (at level 2, format "A ^H").

Lemma adjK' m n (A : 'M[F]_(m, n)) : (A^H)^H = A.
Proof. by apply/matrixP=> i j; rewrite !mxE cjK. Qed.
Lemma adjM' m n p (A : 'M[F]_(m, n)) (B : 'M[F]_(n, p)) : (A *m B)^H = B^H *m A^H.
Proof. by rewrite trmx_mul map_mxM. Qed.
Lemma adjB' m n (A B : 'M[F]_(m, n)) : (A - B)^H = A^H - B^H.
Proof. by rewrite linearB /= map_mxB. Qed.

Section Solve.
Variable D : derivation F.
Variables n c : nat.
Variables (A M : 'M[F]_n) (X B : 'M[F]_(n, c)) (E : 'M[F]_c).
Local Notation d := (dmx D).

(* V solves the adjoint system (A - E M)^H V = G, i.e. A^H V - M^H V E^H = G (E diagonal: E^H = conj E).
   Returned: grad_B = V, A-part -V X^H, M-part V (X E)^H, E-part from V^H M X. *)
Theorem solve_backward_adjoint_conj (G V : 'M[F]_(n, c)) :
  A *m X - M *m X *m E = B ->
  A^H *m V - M^H *m V *m E^H = G ->
  \tr (G^H *m d X) =
  \tr (V^H *m d B) - \tr (V^H *m (d A *m X)) + \tr (V^H *m (d M *m X *m E)) + \tr (V^H *m (M *m X *m d E)).
Proof.
move=> Heq HV.
have T := solve_tangent D Heq.
have -> : \tr (G^H *m d X) = \tr (V^H *m (A *m d X - M *m d X *m E)).
  rewrite -HV adjB' !adjM' !adjK' mulmxBl mulmxBr !linearB /=.
  congr (_ - _); first by rewrite mulmxA.
  by rewrite -!mulmxA mxtrace_mulC -!mulmxA.
by rewrite T !mulmxDr mulmxN !linearD /= linearN.
Qed.
End Solve.

Section IFT.
Variables n p : nat.
Variables (J : 'M[F]_n) (P : 'M[F]_(n, p)).
Variables (dy : 'cV[F]_n) (dth : 'cV[F]_p).

(* implicit function: J dy + P dtheta = 0; the code solves J^H g = -G and returns P^H g *)
Theorem ift_backward_adjoint_conj (G g : 'cV[F]_n) :
  J *m dy + P *m dth = 0 -> J^H *m g = - G ->
  \tr (G^H *m dy) = \tr ((P^H *m g)^H *m dth).
Proof.
move=> Ht Hg.
have -> : G = - (J^H *m g) by rewrite Hg opprK.
have -> : (- (J^H *m g))^H = - (g^H *m J) by rewrite linearN /= map_mxN adjM' adjK'.
rewrite mulNmx -mulmxA.
have -> : J *m dy = - (P *m dth) by apply/eqP; rewrite -addr_eq0 Ht.
by rewrite mulmxN opprK adjM' adjK' mulmxA.
Qed.
End IFT.
End Conj.

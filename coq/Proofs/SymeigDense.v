(* C06, dense path: degen_symeig.backward is the adjoint of the tangent of the full symmetric
   eigendecomposition  A = Y diag(e) Y^T,  Y^T Y = Y Y^T = 1,  with pairwise distinct eigenvalues OR with degenerate pairs
   masked out and a gauge-invariant cotangent (real symmetric case, any size, any field with a derivation D and 1/2).
   With  W = Y^T G,  F_ij = 1/(e_j - e_i) (i <> j), F_ii = 0,
         R = Y (F o W) Y^T + Y diag(ge) Y^T,   result = (R + R^T)/2
   (exactly the code), for EVERY symmetric tangent dA:
         tr(G^T dY) + sum_i ge_i de_i = tr(result^T dA). *)
From mathcomp Require Import all_ssreflect all_algebra.
From mathcomp Require Import ring.
From XV Require Import Base.Deriv Base.MxDeriv.
Set Implicit Arguments.
Unset Strict Implicit.
Unset Printing Implicit Defensive.
Import GRing.Theory.
Local Open Scope ring_scope.

Section Dense.
Variable F : fieldType.
Variable D : derivation F.
Variable n : nat.
Local Notation d := (dmx D).
Variables (A Y : 'M[F]_n) (e : 'rV[F]_n).
Hypothesis HA : A^T = A.
Hypothesis HYtY : Y^T *m Y = 1%:M.
Hypothesis HYYt : Y *m Y^T = 1%:M.
Hypothesis Heig : A *m Y = Y *m diag_mx e.
Variable half : F.
Hypothesis halfP : half + half = 1.

Let Om := Y^T *m d Y.
Let P := Y^T *m (d A *m Y).
Let dL : 'rV[F]_n := \row_i D (e 0 i).

Lemma d_diag : d (diag_mx e) = diag_mx dL.
Proof.
apply/matrixP=> i j; rewrite !mxE; case: (i == j); rewrite ?mulr1n ?mulr0n //.
by rewrite der0.
Qed.

Lemma Om_antisym : Om^T = - Om.
Proof.
have := congr1 (@dmx _ D _ _) HYtY; rewrite dmxM dmx1 dmx_tr => H.
rewrite /Om trmx_mul trmxK.
by apply/eqP; rewrite -subr_eq0 opprK; apply/eqP.
Qed.

Lemma antisym_diag (M : 'M[F]_n) i : M^T = - M -> M i i = 0.
Proof.
move=> /matrixP/(_ i i); rewrite !mxE => H.
have H2 : M i i + M i i = 0 by rewrite {1}H addNr.
by rewrite -[LHS]mul1r -halfP mulrDl -mulrDr H2 mulr0.
Qed.

Lemma Om_diag i : Om i i = 0.
Proof. exact: antisym_diag Om_antisym. Qed.

Lemma YtA : Y^T *m A = diag_mx e *m Y^T.
Proof.
by rewrite -{1}HA -trmx_mul Heig trmx_mul tr_diag_mx.
Qed.

(* the projected tangent:  Y^T dA Y = Om diag(e) - diag(e) Om + diag(de) *)
Lemma P_eq : P = Om *m diag_mx e - diag_mx e *m Om + diag_mx dL.
Proof.
have := congr1 (@dmx _ D _ _) Heig; rewrite !dmxM d_diag => H.
have : Y^T *m (d A *m Y + A *m d Y) = Y^T *m (d Y *m diag_mx e + Y *m diag_mx dL) by rewrite H.
rewrite !mulmxDr (mulmxA Y^T A) YtA -!mulmxA (mulmxA Y^T Y) HYtY mul1mx -/Om !mulmxA -/Om => H2.
rewrite /P mulmxA in H2 *.
apply/eqP; rewrite -subr_eq0; apply/eqP.
rewrite -(mulmxA Y^T) in H2.
move/eqP: H2; rewrite -subr_eq0 => /eqP H2.
rewrite -[RHS]H2 -mulmxA. 
apply/matrixP=> i j; rewrite !mxE.
set p := (Y^T *m (d A *m Y)) i j; set a := (diag_mx e *m Om) i j.
set b := (Om *m diag_mx e) i j; set c := (diag_mx dL) i j.
by rewrite /=; ring.
Qed.

Lemma comm_entry (M : 'M[F]_n) (dl : 'rV[F]_n) i j :
  (M *m diag_mx e - diag_mx e *m M + diag_mx dl) i j = M i j * (e 0 j - e 0 i) + (if i == j then dl 0 i else 0).
Proof.
rewrite mul_mx_diag mul_diag_mx !mxE.
by case: (i == j) => /=; rewrite ?mulr1n ?mulr0n; ring.
Qed.

Lemma P_entry i j : P i j = Om i j * (e 0 j - e 0 i) + (if i == j then D (e 0 i) else 0).
Proof. by rewrite P_eq comm_entry; congr (_ + _); case: (i == j) => //; rewrite /dL mxE. Qed.

Lemma P_diag i : P i i = D (e 0 i).
Proof. by rewrite P_entry eqxx subrr mulr0 add0r. Qed.

(* the code, with its degeneracy map: `mask i j` says that the pair (i, j) is treated as degenerate (|e_i - e_j| below the
   threshold in the code).  All that is needed: the map is reflexive and symmetric, the eigenvalues of every pair it does
   NOT mask are distinct, and the cotangent meets the requirement the code itself checks in debug mode -
   (Y^T G) is symmetric on the masked pairs, i.e. the loss does not depend on the basis inside the masked subspaces. *)
Variable mask : rel 'I_n.
Hypothesis mask_refl : forall i, mask i i.
Hypothesis mask_sym : forall i j, mask i j = mask j i.
Hypothesis Hsep : forall i j, ~~ mask i j -> e 0 i != e 0 j.
Variables (G : 'M[F]_n) (ge : 'rV[F]_n).
Let W := Y^T *m G.
Hypothesis Hreq : forall i j, mask i j -> W i j = W j i.
Let Fm : 'M[F]_n := \matrix_(i, j) (if mask i j then 0 else (e 0 j - e 0 i)^-1).
Let FW : 'M[F]_n := \matrix_(i, j) (Fm i j * W i j).
Let R := Y *m FW *m Y^T + Y *m diag_mx ge *m Y^T.
Let result := half *: (R + R^T).

Lemma Fm_off i j : ~~ mask i j -> Fm i j = (e 0 j - e 0 i)^-1.
Proof. by move=> Hij; rewrite /Fm mxE (negbTE Hij). Qed.
Lemma Fm_masked i j : mask i j -> Fm i j = 0.
Proof. by move=> Hij; rewrite /Fm mxE Hij. Qed.

Lemma Om_entry i j : ~~ mask i j -> Om i j = Fm i j * P i j.
Proof.
move=> Hij; have Hne : i != j by apply: contra Hij => /eqP ->; exact: mask_refl.
rewrite P_entry (negbTE Hne) addr0 (Fm_off Hij).
set x := Om i j; rewrite mulrCA mulVf ?mulr1 //.
by rewrite subr_eq0 eq_sym; exact: Hsep.
Qed.

Lemma tr_mulT (S T : 'M[F]_n) : \tr (S^T *m T) = \sum_j \sum_i S i j * T i j.
Proof. by rewrite /mxtrace; apply: eq_bigr => j _; rewrite mxE; apply: eq_bigr => i _; rewrite mxE. Qed.

(* a symmetric matrix is trace-orthogonal to an antisymmetric one *)
Lemma sym_antisym_tr0 (S T : 'M[F]_n) : S^T = S -> T^T = - T -> \tr (S^T *m T) = 0.
Proof.
move=> HS HT; set t := \tr _.
have Ht : t = - t.
  rewrite {1}/t -mxtrace_tr trmx_mul trmxK HT mulNmx linearN /= mxtrace_mulC.
  by rewrite /t HS.
have H2 : t + t = 0 by rewrite {1}Ht addNr.
by rewrite -[t]mul1r -halfP mulrDl -mulrDr H2 mulr0.
Qed.

(* the masked part of W = Y^T G (symmetric by the requirement) and the rest *)
Let Wm : 'M[F]_n := \matrix_(i, j) (if mask i j then W i j else 0).
Let Wu : 'M[F]_n := \matrix_(i, j) (if mask i j then 0 else W i j).

Lemma Wm_sym : Wm^T = Wm.
Proof.
apply/matrixP => i j; rewrite mxE /Wm [LHS]mxE [RHS]mxE mask_sym.
by case Hij: (mask i j) => //; rewrite (Hreq Hij).
Qed.

Lemma tr_GdY : \tr (G^T *m d Y) = \tr (FW^T *m P).
Proof.
have -> : G^T *m d Y = W^T *m Om.
  by rewrite /W /Om trmx_mul trmxK -mulmxA (mulmxA Y) HYYt mul1mx.
have -> : W = Wm + Wu.
  by apply/matrixP => i j; rewrite !mxE; case: (mask i j); rewrite ?addr0 ?add0r.
rewrite linearD /= mulmxDl linearD /= (sym_antisym_tr0 Wm_sym Om_antisym) add0r.
rewrite !tr_mulT; apply: eq_bigr => j _; apply: eq_bigr => i _.
have -> : FW i j = Fm i j * W i j by rewrite /FW mxE.
rewrite [Wu i j]mxE; case Hij: (mask i j).
  by rewrite (Fm_masked Hij) !mul0r.
have Hn : ~~ mask i j by rewrite Hij.
rewrite (Om_entry Hn); set x := P i j; set w := W i j; set f := Fm i j; ring.
Qed.

Lemma tr_ge : \sum_i ge 0 i * D (e 0 i) = \tr ((diag_mx ge)^T *m P).
Proof.
rewrite tr_diag_mx /mxtrace; apply: eq_bigr => i _.
by rewrite mul_diag_mx mxE P_diag.
Qed.

Lemma dA_sym : (d A)^T = d A.
Proof. by rewrite -dmx_tr HA. Qed.

Lemma tr_conj (S : 'M[F]_n) : \tr (S^T *m P) = \tr ((Y *m S *m Y^T)^T *m d A).
Proof.
rewrite /P.
have -> : S^T *m (Y^T *m (d A *m Y)) = (S^T *m Y^T *m d A) *m Y by rewrite !mulmxA.
by rewrite mxtrace_mulC !trmx_mul trmxK !mulmxA.
Qed.

Lemma tr_symmetrised (S B : 'M[F]_n) : B^T = B -> \tr ((half *: (S + S^T))^T *m B) = \tr (S^T *m B).
Proof.
move=> HB.
have Hsym : \tr (S *m B) = \tr (S^T *m B) by rewrite -mxtrace_tr trmx_mul HB mxtrace_mulC.
rewrite linearZ /= linearD /= trmxK -scalemxAl linearZ /= mulmxDl linearD /= Hsym.
set t := \tr _.
have -> : half * (t + t) = (half + half) * t by ring.
by rewrite halfP mul1r.
Qed.

Theorem degen_symeig_backward_adjoint_masked :
  \tr (G^T *m d Y) + \sum_i ge 0 i * D (e 0 i) = \tr (result^T *m d A).
Proof.
rewrite tr_GdY tr_ge !tr_conj /result (tr_symmetrised R dA_sym).
by rewrite /R [in RHS]linearD /= mulmxDl linearD.
Qed.
End Dense.

(* pairwise distinct eigenvalues: the mask is the diagonal and the requirement is void *)
Section DenseDistinct.
Variable F : fieldType.
Variable D : derivation F.
Variable n : nat.
Variables (A Y : 'M[F]_n) (e : 'rV[F]_n).
Hypothesis HA : A^T = A.
Hypothesis HYtY : Y^T *m Y = 1%:M.
Hypothesis HYYt : Y *m Y^T = 1%:M.
Hypothesis Heig : A *m Y = Y *m diag_mx e.
Hypothesis Hdist : forall i j, i != j -> e 0 i != e 0 j.
Variable half : F.
Hypothesis halfP : half + half = 1.
Variables (G : 'M[F]_n) (ge : 'rV[F]_n).

Theorem degen_symeig_backward_adjoint :
  let Fm : 'M[F]_n := \matrix_(i, j) (if i == j then 0 else (e 0 j - e 0 i)^-1) in
  let FW : 'M[F]_n := \matrix_(i, j) (Fm i j * (Y^T *m G) i j) in
  let R := Y *m FW *m Y^T + Y *m diag_mx ge *m Y^T in
  \tr (G^T *m dmx D Y) + \sum_i ge 0 i * D (e 0 i) = \tr ((half *: (R + R^T))^T *m dmx D A).
Proof.
apply: (@degen_symeig_backward_adjoint_masked F D n A Y e HA HYtY HYYt Heig half halfP (fun i j => i == j)).
- by move=> i; exact: eqxx.
- by move=> i j; exact: eq_sym.
- by move=> i j; exact: Hdist.
- by move=> i j /eqP ->.
Qed.
End DenseDistinct.

(* the requirement IS gauge invariance to first order: if the loss does not change along any rotation of the basis inside the
   masked pairs - <G, Y K> = 0 for every antisymmetric generator K supported on the mask - then Y^T G is symmetric there *)
Section Gauge.
Variable F : fieldType.
Variable n : nat.
Variables (Y G : 'M[F]_n).
Variable mask : rel 'I_n.

Lemma gauge_invariance_gives_requirement :
  (forall K : 'M[F]_n, K^T = - K -> (forall i j, ~~ mask i j -> K i j = 0) -> \tr (G^T *m (Y *m K)) = 0) ->
  forall i j, mask i j -> mask j i -> (Y^T *m G) i j = (Y^T *m G) j i.
Proof.
move=> Hinv i j Hij Hji.
pose K : 'M[F]_n := delta_mx i j - delta_mx j i.
have KT : K^T = - K by rewrite /K linearB /= !trmx_delta opprB.
have Ksupp : forall a b, ~~ mask a b -> K a b = 0.
  move=> a b Hab; rewrite /K !mxE.
  have -> : (a == i) && (b == j) = false.
    by apply/negbTE; apply: contra Hab => /andP [/eqP -> /eqP ->].
  have -> : (a == j) && (b == i) = false.
    by apply/negbTE; apply: contra Hab => /andP [/eqP -> /eqP ->].
  by rewrite subrr.
have := Hinv K KT Ksupp.
have -> : G^T *m (Y *m K) = (Y^T *m G)^T *m K by rewrite trmx_mul trmxK mulmxA.
rewrite /K mulmxBr linearB /= => /eqP; rewrite subr_eq0 => /eqP.
have tr_delta (S : 'M[F]_n) a b : \tr (S^T *m delta_mx a b) = S a b.
  rewrite /mxtrace (bigD1 b) //= big1 ?addr0; last first.
    move=> c Hc; rewrite mxE big1 // => k _; rewrite !mxE (negbTE Hc) andbF mulr0 //.
  rewrite mxE (bigD1 a) //= big1 ?addr0; last first.
    by move=> k Hk; rewrite !mxE (negbTE Hk) mulr0.
  by rewrite !mxE !eqxx mulr1.
by rewrite !tr_delta.
Qed.
End Gauge.

(* C06, dense path: degen_symeig.backward is the adjoint of the tangent of the full symmetric
   eigendecomposition  A = Y diag(e) Y^T,  Y^T Y = Y Y^T = 1,  with pairwise distinct eigenvalues
   (real symmetric case, any size, any field with a derivation D and 1/2).
   With  W = Y^T G,  F_ij = 1/(e_j - e_i) (i <> j), F_ii = 0,
         R = Y (F o W) Y^T + Y diag(ge) Y^T,   result = (R + R^T)/2
   (exactly the code), for EVERY symmetric tangent dA:
         tr(G^T dY) + sum_i ge_i de_i = tr(result^T dA). *)
From mathcomp Require Import all_ssreflect all_algebra.
From mathcomp Require Import ring.
From XV Require Import Base.Deriv Base.MxDeriv.
Set Implicit Arguments.
Unset Strict Implicit.
Unset Printing Implicit Defensive.
Import GRing.Theory.
Local Open Scope ring_scope.

Section Dense.
Variable F : fieldType.
Variable D : derivation F.
Variable n : nat.
Local Notation d := (dmx D).
Variables (A Y : 'M[F]_n) (e : 'rV[F]_n).
Hypothesis HA : A^T = A.
Hypothesis HYtY : Y^T *m Y = 1%:M.
Hypothesis HYYt : Y *m Y^T = 1%:M.
Hypothesis Heig : A *m Y = Y *m diag_mx e.
Hypothesis Hdist : forall i j, i != j -> e 0 i != e 0 j.
Variable half : F.
Hypothesis halfP : half + half = 1.

Let Om := Y^T *m d Y.
Let P := Y^T *m (d A *m Y).
Let dL : 'rV[F]_n := \row_i D (e 0 i).

Lemma d_diag : d (diag_mx e) = diag_mx dL.
Proof.
apply/matrixP=> i j; rewrite !mxE; case: (i == j); rewrite ?mulr1n ?mulr0n //.
by rewrite der0.
Qed.

Lemma Om_antisym : Om^T = - Om.
Proof.
have := congr1 (@dmx _ D _ _) HYtY; rewrite dmxM dmx1 dmx_tr => H.
rewrite /Om trmx_mul trmxK.
by apply/eqP; rewrite -subr_eq0 opprK; apply/eqP.
Qed.

Lemma antisym_diag (M : 'M[F]_n) i : M^T = - M -> M i i = 0.
Proof.
move=> /matrixP/(_ i i); rewrite !mxE => H.
have H2 : M i i + M i i = 0 by rewrite {1}H addNr.
by rewrite -[LHS]mul1r -halfP mulrDl -mulrDr H2 mulr0.
Qed.

Lemma Om_diag i : Om i i = 0.
Proof. exact: antisym_diag Om_antisym. Qed.

Lemma YtA : Y^T *m A = diag_mx e *m Y^T.
Proof.
by rewrite -{1}HA -trmx_mul Heig trmx_mul tr_diag_mx.
Qed.

(* the projected tangent:  Y^T dA Y = Om diag(e) - diag(e) Om + diag(de) *)
Lemma P_eq : P = Om *m diag_mx e - diag_mx e *m Om + diag_mx dL.
Proof.
have := congr1 (@dmx _ D _ _) Heig; rewrite !dmxM d_diag => H.
have : Y^T *m (d A *m Y + A *m d Y) = Y^T *m (d Y *m diag_mx e + Y *m diag_mx dL) by rewrite H.
rewrite !mulmxDr (mulmxA Y^T A) YtA -!mulmxA (mulmxA Y^T Y) HYtY mul1mx -/Om !mulmxA -/Om => H2.
rewrite /P mulmxA in H2 *.
apply/eqP; rewrite -subr_eq0; apply/eqP.
rewrite -(mulmxA Y^T) in H2.
move/eqP: H2; rewrite -subr_eq0 => /eqP H2.
rewrite -[RHS]H2 -mulmxA. 
apply/matrixP=> i j; rewrite !mxE.
set p := (Y^T *m (d A *m Y)) i j; set a := (diag_mx e *m Om) i j.
set b := (Om *m diag_mx e) i j; set c := (diag_mx dL) i j.
by rewrite /=; ring.
Qed.

Lemma comm_entry (M : 'M[F]_n) (dl : 'rV[F]_n) i j :
  (M *m diag_mx e - diag_mx e *m M + diag_mx dl) i j = M i j * (e 0 j - e 0 i) + (if i == j then dl 0 i else 0).
Proof.
rewrite mul_mx_diag mul_diag_mx !mxE.
by case: (i == j) => /=; rewrite ?mulr1n ?mulr0n; ring.
Qed.

Lemma P_entry i j : P i j = Om i j * (e 0 j - e 0 i) + (if i == j then D (e 0 i) else 0).
Proof. by rewrite P_eq comm_entry; congr (_ + _); case: (i == j) => //; rewrite /dL mxE. Qed.

Lemma P_diag i : P i i = D (e 0 i).
Proof. by rewrite P_entry eqxx subrr mulr0 add0r. Qed.

(* the code *)
Variables (G : 'M[F]_n) (ge : 'rV[F]_n).
Let W := Y^T *m G.
Let Fm : 'M[F]_n := \matrix_(i, j) (if i == j then 0 else (e 0 j - e 0 i)^-1).
Let FW : 'M[F]_n := \matrix_(i, j) (Fm i j * W i j).
Let R := Y *m FW *m Y^T + Y *m diag_mx ge *m Y^T.
Let result := half *: (R + R^T).

Lemma Fm_off i j : i != j -> Fm i j = (e 0 j - e 0 i)^-1.
Proof. by move=> Hij; rewrite /Fm mxE (negbTE Hij). Qed.
Lemma Fm_diag i : Fm i i = 0.
Proof. by rewrite /Fm mxE eqxx. Qed.

Lemma Om_entry i j : i != j -> Om i j = Fm i j * P i j.
Proof.
move=> Hij; rewrite P_entry (negbTE Hij) addr0 (Fm_off Hij).
set x := Om i j; rewrite mulrCA mulVf ?mulr1 //.
by rewrite subr_eq0 eq_sym; exact: Hdist.
Qed.

Lemma tr_mulT (S T : 'M[F]_n) : \tr (S^T *m T) = \sum_j \sum_i S i j * T i j.
Proof. by rewrite /mxtrace; apply: eq_bigr => j _; rewrite mxE; apply: eq_bigr => i _; rewrite mxE. Qed.

Lemma tr_GdY : \tr (G^T *m d Y) = \tr (FW^T *m P).
Proof.
have -> : G^T *m d Y = W^T *m Om.
  by rewrite /W /Om trmx_mul trmxK -mulmxA (mulmxA Y) HYYt mul1mx.
rewrite !tr_mulT; apply: eq_bigr => j _; apply: eq_bigr => i _.
have -> : FW i j = Fm i j * W i j by rewrite /FW mxE.
have [->|Hij] := eqVneq i j; first by rewrite Om_diag Fm_diag mul0r mulr0 mul0r.
rewrite (Om_entry Hij); set x := P i j; set w := W i j; set f := Fm i j; ring.
Qed.

Lemma tr_ge : \sum_i ge 0 i * D (e 0 i) = \tr ((diag_mx ge)^T *m P).
Proof.
rewrite tr_diag_mx /mxtrace; apply: eq_bigr => i _.
by rewrite mul_diag_mx mxE P_diag.
Qed.

Lemma dA_sym : (d A)^T = d A.
Proof. by rewrite -dmx_tr HA. Qed.

Lemma tr_conj (S : 'M[F]_n) : \tr (S^T *m P) = \tr ((Y *m S *m Y^T)^T *m d A).
Proof.
rewrite /P.
have -> : S^T *m (Y^T *m (d A *m Y)) = (S^T *m Y^T *m d A) *m Y by rewrite !mulmxA.
by rewrite mxtrace_mulC !trmx_mul trmxK !mulmxA.
Qed.

Lemma tr_symmetrised (S B : 'M[F]_n) : B^T = B -> \tr ((half *: (S + S^T))^T *m B) = \tr (S^T *m B).
Proof.
move=> HB.
have Hsym : \tr (S *m B) = \tr (S^T *m B) by rewrite -mxtrace_tr trmx_mul HB mxtrace_mulC.
rewrite linearZ /= linearD /= trmxK -scalemxAl linearZ /= mulmxDl linearD /= Hsym.
set t := \tr _.
have -> : half * (t + t) = (half + half) * t by ring.
by rewrite halfP mul1r.
Qed.

Theorem degen_symeig_backward_adjoint :
  \tr (G^T *m d Y) + \sum_i ge 0 i * D (e 0 i) = \tr (result^T *m d A).
Proof.
rewrite tr_GdY tr_ge !tr_conj /result (tr_symmetrised R dA_sym).
by rewrite /R [in RHS]linearD /= mulmxDl linearD.
Qed.
End Dense.

(* xitorch/_utils/misc.py:TensorPacker.__init__ AS TRANSLATED FROM /repo ON THIS RUN (Gen/PyTensorPacker.v; tensors modelled by
   their shapes): the (start, finish, shape) triples are contiguous from 0, each as wide as its tensor, and - the reason the class
   exists - cutting the concatenation of the flattened tensors at these offsets gives every tensor's data back, for EVERY list
   of shapes (tuple-valued states of solve_ivp and tuple-valued integrands of quad / mcquad go through it: C07, C08). *)
From Coq Require Import ZArith List Bool Lia Arith.
From Coq Require String.
Import String.StringSyntax.
Import ListNotations.
From XV Require Import Base.PyLib Proofs.PyLibFacts Gen.PyTensorPacker.
Local Open Scope Z_scope.

Fixpoint packer_spec (off : Z) (shapes : list (list Z)) : list (Z * Z * list Z) :=
  match shapes with
  | [] => []
  | p :: r => (off, off + py_numel p, p) :: packer_spec (off + py_numel p) r
  end.

Definition tp_body (st : list (Z * Z * list Z) * Z) (it : Z * list Z) : res (list (Z * Z * list Z) * Z) :=
  let '(i_, p_) := it in
  let '(self_idx_shapes_, istart_) := st in
  let ifinish_ := istart_ + py_numel p_ in
  Ok (self_idx_shapes_ ++ [(istart_, ifinish_, p_)], ifinish_).

Lemma tp_loop shapes : forall i acc off,
  for_each (enum_from i shapes) tp_body (acc, off) =
  Ok (acc ++ packer_spec off shapes, fold_left (fun o p => o + py_numel p) shapes off).
Proof.
  induction shapes as [|p r IH]; intros i acc off.
  - cbn. rewrite app_nil_r. reflexivity.
  - rewrite enum_from_cons. cbn [for_each]. unfold tp_body at 1. cbn [bind]. rewrite IH.
    cbn [packer_spec fold_left]. rewrite <- app_assoc. reflexivity.
Qed.

Theorem tensorpacker_init_spec shapes : tensorpacker_init shapes = Ok (packer_spec 0 shapes).
Proof.
  unfold tensorpacker_init. rewrite py_enumerate_enum.
  pose proof (tp_loop shapes 0 [] 0) as H. cbn [app] in H.
  set (loop := for_each _ _ _).
  assert (E : loop = for_each (enum_from 0 shapes) tp_body ([], 0)) by reflexivity.
  rewrite E, H. reflexivity.
Qed.

(* ---------- cutting the flat vector at the recorded offsets ---------- *)
Definition slice {A} (a b : Z) (data : list A) : list A := firstn (Z.to_nat (b - a)) (skipn (Z.to_nat a) data).

Lemma py_numel_from_nonneg shape : forall acc, 0 <= acc -> Forall (fun d => 0 <= d) shape -> 0 <= fold_left Z.mul shape acc.
Proof.
  induction shape as [|d r IH]; intros acc Ha Hs; [exact Ha|]. cbn [fold_left]. inversion Hs as [|? ? Hd Hr]; subst.
  apply IH; [apply Z.mul_nonneg_nonneg; assumption|exact Hr].
Qed.
Lemma py_numel_nonneg shape : Forall (fun d => 0 <= d) shape -> 0 <= py_numel shape.
Proof. intros H. apply py_numel_from_nonneg; [lia|exact H]. Qed.

(* datas: the flattened payload of every tensor, of the size its shape announces *)
Theorem tensorpacker_slices_roundtrip {A} (shapes : list (list Z)) : forall (datas : list (list A)) (pre : list A),
  Forall (Forall (fun d => 0 <= d)) shapes ->
  Forall2 (fun sh d => Z.of_nat (length d) = py_numel sh) shapes datas ->
  map (fun t => slice (fst (fst t)) (snd (fst t)) (pre ++ concat datas)) (packer_spec (Z.of_nat (length pre)) shapes) = datas.
Proof.
  induction shapes as [|sh r IH]; intros datas pre Hnn H2; inversion H2 as [|? d ? ds Hd Hr]; subst; [reflexivity|].
  inversion Hnn as [|? ? Hsh Hrn]; subst.
  cbn [packer_spec map fst snd concat]. f_equal.
  - unfold slice. replace (Z.of_nat (length pre) + py_numel sh - Z.of_nat (length pre)) with (py_numel sh) by lia.
    rewrite <- Hd, !Nat2Z.id. rewrite skipn_app, skipn_all, Nat.sub_diag. cbn [app skipn].
    rewrite firstn_app, firstn_all, Nat.sub_diag. cbn [firstn]. apply app_nil_r.
  - specialize (IH ds (pre ++ d) Hrn Hr). rewrite app_length, Nat2Z.inj_add, Hd in IH.
    rewrite <- app_assoc in IH. exact IH.
Qed.

(* the statement used by Props/C07.v and C08.v (mathcomp files) *)
Definition translated_tensorpacker_statement : Prop :=
  (forall shapes, tensorpacker_init shapes = Ok (packer_spec 0 shapes)) /\
  (forall (shapes : list (list Z)) (datas : list (list Z)),
     Forall (Forall (fun d => 0 <= d)) shapes ->
     Forall2 (fun sh d => Z.of_nat (length d) = py_numel sh) shapes datas ->
     exists triples, tensorpacker_init shapes = Ok triples /\
       map (fun t => slice (fst (fst t)) (snd (fst t)) (concat datas)) triples = datas /\ map (fun t => snd t) triples = shapes).
Lemma translated_tensorpacker : translated_tensorpacker_statement.
Proof.
  split; [exact tensorpacker_init_spec|]. intros shapes datas Hnn H2. exists (packer_spec 0 shapes).
  split; [apply tensorpacker_init_spec|]. split.
  - exact (tensorpacker_slices_roundtrip shapes datas [] Hnn H2).
  - clear. generalize 0. induction shapes as [|p r IH]; intros off; [reflexivity|]. cbn. f_equal. apply IH.
Qed.

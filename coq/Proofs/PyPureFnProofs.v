(* PureFunction.set_objparams / restore_objparams and _check_identical_objs of xitorch/_core/pure_function.py AS TRANSLATED FROM
   /repo ON THIS RUN (Gen/PyPureFn.v) refine the transitions [set_obj] / [restore_obj] of Model/PureFn.v, on which the
   restoration theorems of C10 (every well-bracketed program with a crash at any evaluation returns the object to its state) and
   the substitution theorems of C09 are stated.  The object of the implementation is the tuple of its fields; the stack of the
   implementation grows at the end of a list, the model's at the head. *)
From Coq Require Import ZArith List Bool Lia Arith.
From Coq Require String.
Import String.StringSyntax.
Import ListNotations.
From XV Require Import Model.Packer Model.PureFn Base.PyLib Proofs.PyLibFacts Gen.PyUnique Gen.PyPureFn.
Local Open Scope Z_scope.

Section Refine.
  Variable f : nat -> obj.
  Hypothesis f_inj : forall i j, obj_id (f i) = obj_id (f j) -> i = j.

  (* ---------- _check_identical_objs ---------- *)
  Definition ci_body (r : option bool) (it : obj * obj) : res (option bool) :=
    let '(obj1_, obj2_) := it in
    match r with
    | Some _ => Ok r
    | None => if negb (obj_id obj1_ =? obj_id obj2_) then Ok (Some false) else Ok None
    end.

  Lemma ci_loop_some l v : for_each l ci_body (Some v) = Ok (Some v).
  Proof. induction l as [|[a b] r IH]; [reflexivity|]. cbn [for_each]. unfold ci_body at 1. cbn [bind]. exact IH. Qed.

  Lemma ci_loop a : forall b,
    for_each (py_zip2 (map f a) (map f b)) ci_body None = Ok (if prefix_identical a b then None else Some false).
  Proof.
    induction a as [|x r IH]; intros [|y s]; try reflexivity.
    cbn [map py_zip2 combine for_each]. unfold ci_body at 1. cbn [prefix_identical].
    destruct (Nat.eqb_spec x y) as [->|Hn].
    - rewrite Z.eqb_refl. cbn [negb bind andb]. apply IH.
    - destruct (Z.eqb_spec (obj_id (f x)) (obj_id (f y))) as [E|_]; [apply f_inj in E; contradiction|].
      cbn [negb bind andb]. apply ci_loop_some.
  Qed.

  Theorem check_identical_objs_refines a b :
    check_identical_objs (map f a) (map f b) = Ok (prefix_identical a b).
  Proof.
    unfold check_identical_objs.
    set (loop := for_each _ _ _).
    assert (Hl : loop = Ok (if prefix_identical a b then None else Some false))
      by (etransitivity; [|exact (ci_loop a b)]; reflexivity).
    rewrite Hl. destruct (prefix_identical a b); reflexivity.
  Qed.

  (* ---------- Uniquifier.map_unique_objs on the model's inverse map ---------- *)
  Lemma mapM_list_get {A} (us : list A) d inv : (forall j, In j inv -> (j < length us)%nat) ->
    mapM (fun i => list_get us i) (map Z.of_nat inv) = Ok (select d us inv).
  Proof.
    induction inv as [|j r IH]; intros H; [reflexivity|]. cbn [map mapM select].
    assert (Hj : (j < length us)%nat) by (apply H; left; reflexivity).
    unfold list_get at 1. unfold py_len.
    destruct (Z.ltb_spec (Z.of_nat j) 0) as [Hneg|_]; [lia|].
    destruct (Z.ltb_spec (Z.of_nat j) 0) as [Hneg|_]; [lia|].
    destruct (Z.leb_spec (Z.of_nat (length us)) (Z.of_nat j)) as [Hbig|_]; [lia|].
    cbn [orb]. rewrite Nat2Z.id.
    destruct (nth_error us j) as [a|] eqn:E; [|apply nth_error_None in E; lia].
    cbn [bind]. rewrite IH by (intros k Hk; apply H; right; exact Hk). cbn [bind].
    unfold select. cbn [map]. rewrite (nth_error_nth us j d E). reflexivity.
  Qed.

  (* the part of a Uniquifier that map_unique_objs reads, for a model state s *)
  Definition uniq_of (s : state) (n : Z) (uo : list obj) (ui : list Z) (au : bool) :=
    (n, uo, ui, map Z.of_nat (inv s), Z.of_nat (nuniq s), au).
  (* what makes the flags consistent (true of every Uniquifier: see wf_of_init below) *)
  Definition uniq_wf (s : state) (au : bool) : Prop :=
    (forall j, In j (inv s) -> (j < nuniq s)%nat) /\ (au = true -> inv s = seq 0 (nuniq s)).

  Lemma select_seq {A} (d : A) l : select d l (seq 0 (length l)) = l.
  Proof.
    unfold select. apply nth_ext with (d := d) (d' := d); [rewrite map_length, seq_length; reflexivity|].
    intros i Hi. rewrite map_length, seq_length in Hi.
    rewrite (nth_indep _ d (nth 0 l d)) by (rewrite map_length, seq_length; exact Hi).
    rewrite (map_nth (fun i => nth i l d) (seq 0 (length l)) 0%nat i). rewrite seq_nth by exact Hi. reflexivity.
  Qed.

  Lemma map_unique_refines s n uo ui au new :
    uniq_wf s au -> length new = nuniq s ->
    uniquifier_map_unique_objs n uo ui (map Z.of_nat (inv s)) (Z.of_nat (nuniq s)) au (map f new) =
    Ok (map f (map_unique (inv s) new)).
  Proof.
    intros [Hr Hau] Hlen. unfold uniquifier_map_unique_objs, py_len. rewrite map_length, Hlen, Z.eqb_refl.
    unfold map_unique. destruct au.
    - rewrite (Hau eq_refl), <- Hlen, select_seq. reflexivity.
    - rewrite (mapM_list_get (map f new) (f 0%nat)) by (intros j Hj; rewrite map_length, Hlen; apply Hr; exact Hj).
      f_equal. unfold select. rewrite map_map. apply map_ext. intros i. apply map_nth.
  Qed.

  Lemma map_unique_rejects s n uo ui au (new : list nat) :
    length new <> nuniq s ->
    uniquifier_map_unique_objs n uo ui (map Z.of_nat (inv s)) (Z.of_nat (nuniq s)) au (map f new) = Raise "RuntimeError".
  Proof.
    intros H. unfold uniquifier_map_unique_objs, py_len. rewrite map_length.
    destruct (Z.eqb_spec (Z.of_nat (length new)) (Z.of_nat (nuniq s))) as [E|_]; [apply Nat2Z.inj in E; contradiction|reflexivity].
  Qed.

  (* ---------- the fields of the implementation for a model state ---------- *)
  Definition stack_of (st : list (list nat * bool)) : list (list obj * bool) :=
    rev (map (fun e => (map f (fst e), snd e)) st).
  Definition fields_out (s : state) := (map f (store s), map f (cur s), stack_of (stack s)).

  (* set_objparams: the model's transition; when the model raises (wrong number of tensors) so does the code *)
  Theorem set_objparams_refines s n uo ui au new :
    uniq_wf s au ->
    purefn_set_objparams (allowed s) (map f (store s)) (uniq_of s n uo ui au) (map f (cur s)) (stack_of (stack s)) (map f new) =
    (if snd (set_obj s new) then Raise "RuntimeError" else Ok (fields_out (fst (set_obj s new)))).
  Proof.
    intros Hwf. unfold purefn_set_objparams, set_obj. rewrite check_identical_objs_refines. cbn [bind].
    destruct (prefix_identical new (cur s)) eqn:Eid; cbn [negb].
    - cbn [fst snd]. unfold fields_out, stack_of. cbn [store cur stack map rev fst snd]. reflexivity.
    - unfold uniq_of. destruct (Nat.eqb_spec (length new) (nuniq s)) as [Hlen|Hlen]; cbn [fst snd].
      + rewrite (map_unique_refines s n uo ui au new Hwf Hlen). cbn [bind].
        unfold fields_out, stack_of. cbn [store cur stack map rev fst snd]. reflexivity.
      + rewrite (map_unique_rejects s n uo ui au new Hlen). reflexivity.
  Qed.

  Lemma pop_last_stack e st :
    list_pop_last (stack_of (e :: st)) = Ok ((map f (fst e), snd e), stack_of st).
  Proof.
    unfold list_pop_last, stack_of. cbn [map rev]. rewrite rev_app_distr. cbn [rev app]. rewrite rev_involutive. reflexivity.
  Qed.

  (* restore_objparams, for a state whose saved parameter lists have the right length (true of every reachable state) *)
  Theorem restore_objparams_refines s n uo ui au old ident r :
    uniq_wf s au -> stack s = (old, ident) :: r -> (ident = false -> length old = nuniq s) ->
    purefn_restore_objparams (allowed s) (map f (store s)) (uniq_of s n uo ui au) (map f (cur s)) (stack_of (stack s)) =
    Ok (fields_out (restore_obj s)).
  Proof.
    intros Hwf Hst Hlen. unfold purefn_restore_objparams, restore_obj. rewrite Hst, pop_last_stack. cbn [bind fst snd].
    destruct ident; cbn [negb].
    - unfold fields_out. cbn [store cur stack]. reflexivity.
    - unfold uniq_of. rewrite (map_unique_refines s n uo ui au old Hwf (Hlen eq_refl)). cbn [bind].
      unfold fields_out. cbn [store cur stack]. reflexivity.
  Qed.

  (* an empty stack: the code raises IndexError (the model leaves the state alone; no well-bracketed program gets there) *)
  Theorem restore_objparams_empty s n uo ui au :
    stack s = [] ->
    purefn_restore_objparams (allowed s) (map f (store s)) (uniq_of s n uo ui au) (map f (cur s)) (stack_of (stack s)) = Raise "IndexError".
  Proof. intros H. unfold purefn_restore_objparams. rewrite H. reflexivity. Qed.
End Refine.

(* ---------- every Uniquifier satisfies uniq_wf ---------- *)
Lemma uniq_go_fst_le ids : forall i seen n, (length (fst (uniq_go ids i seen n)) <= length ids)%nat.
Proof.
  induction ids as [|x r IH]; intros i seen n; [cbn; lia|]. cbn [uniq_go].
  destruct (lookup x seen).
  - specialize (IH (S i) seen n). destruct (uniq_go r (S i) seen n). cbn in *. lia.
  - specialize (IH (S i) ((x, n) :: seen) (S n)). destruct (uniq_go r (S i) ((x, n) :: seen) (S n)). cbn in *. lia.
Qed.

Lemma uniq_go_all_new ids : forall i seen n,
  length (fst (uniq_go ids i seen n)) = length ids -> snd (uniq_go ids i seen n) = seq n (length ids).
Proof.
  induction ids as [|x r IH]; intros i seen n H; [reflexivity|]. cbn [uniq_go] in *.
  destruct (lookup x seen).
  - pose proof (uniq_go_fst_le r (S i) seen n) as Hle. destruct (uniq_go r (S i) seen n). cbn in *. lia.
  - specialize (IH (S i) ((x, n) :: seen) (S n)). destruct (uniq_go r (S i) ((x, n) :: seen) (S n)) as [ui inv].
    cbn [fst snd length] in *. rewrite IH by lia. reflexivity.
Qed.

Lemma uniq_go_inv_lt ids : forall i seen n,
  (forall x s, lookup x seen = Some s -> (s < n)%nat) ->
  forall j, In j (snd (uniq_go ids i seen n)) -> (j < n + length (fst (uniq_go ids i seen n)))%nat.
Proof.
  induction ids as [|x r IH]; intros i seen n Hs j Hj; [destruct Hj|]. cbn [uniq_go] in *.
  destruct (lookup x seen) as [s|] eqn:E.
  - specialize (IH (S i) seen n Hs j). destruct (uniq_go r (S i) seen n) as [ui inv]. cbn [fst snd] in *.
    destruct Hj as [Hj|Hj]; [subst j; specialize (Hs x s E); lia|apply IH; exact Hj].
  - assert (Hs' : forall y s, lookup y ((x, n) :: seen) = Some s -> (s < S n)%nat).
    { intros y s. cbn [lookup]. destruct (Nat.eqb y x); [intros H; injection H as <-; lia|intros H; specialize (Hs y s H); lia]. }
    specialize (IH (S i) ((x, n) :: seen) (S n) Hs' j). destruct (uniq_go r (S i) ((x, n) :: seen) (S n)) as [ui inv].
    cbn [fst snd length] in *. destruct Hj as [Hj|Hj]; [subst j; lia|specialize (IH Hj); lia].
Qed.

(* the wrapper state built by the model from the object's parameter list, with the all_unique flag of the constructor *)
Theorem wf_of_init (all : list nat) (d : bool) :
  uniq_wf (wrap all d) (Z.of_nat (length all) =? Z.of_nat (length (fst (uniq_ids all)))).
Proof.
  unfold uniq_wf, wrap, uniq_ids. cbn [inv nuniq]. split.
  - intros j Hj. pose proof (uniq_go_inv_lt all 0 [] 0 (fun x s H => ltac:(discriminate)) j Hj) as H. lia.
  - intros Hau. apply Z.eqb_eq, Nat2Z.inj in Hau. symmetry in Hau.
    rewrite (uniq_go_all_new all 0 [] 0 Hau), Hau. reflexivity.
Qed.

(* ---------- directly about the translated code: a substitution followed by its restoration is the identity ---------- *)
From XV Require Import Proofs.PureFnProofs.

Theorem code_set_then_restore f (f_inj : forall i j, obj_id (f i) = obj_id (f j) -> i = j) s n uo ui au new F1 :
  wf s -> uniq_wf s au ->
  purefn_set_objparams (allowed s) (map f (store s)) (uniq_of s n uo ui au) (map f (cur s)) (stack_of f (stack s)) (map f new) = Ok F1 ->
  let '(st1, cur1, stk1) := F1 in
  purefn_restore_objparams (allowed s) st1 (uniq_of s n uo ui au) cur1 stk1 = Ok (fields_out f s).
Proof.
  intros [Hst Hcur] Hu Hset. rewrite (set_objparams_refines f f_inj s n uo ui au new Hu) in Hset.
  destruct (snd (set_obj s new)) eqn:Er; [discriminate|]. injection Hset as <-.
  set (s1 := fst (set_obj s new)).
  assert (Hs1 : inv s1 = inv s /\ nuniq s1 = nuniq s /\ allowed s1 = allowed s /\
                exists ident, stack s1 = (cur s, ident) :: stack s /\
                (ident = true -> store s1 = store s /\ cur s1 = cur s)).
  { unfold s1, set_obj. destruct (prefix_identical new (cur s)); [|destruct (Nat.eqb (length new) (nuniq s))]; cbn [fst inv nuniq allowed stack store cur];
      repeat split; eexists; split; try reflexivity; try (intros; split; reflexivity); intros H; discriminate. }
  destruct Hs1 as (Hi & Hn & Ha & ident & Hstk & Hid).
  unfold fields_out at 1. cbn beta iota.
  assert (Hu1 : uniq_wf s1 au) by (unfold uniq_wf in *; rewrite Hi, Hn; exact Hu).
  pose proof (restore_objparams_refines f s1 n uo ui au (cur s) ident (stack s) Hu1 Hstk (fun _ => eq_trans Hcur (eq_sym Hn))) as Hr.
  unfold uniq_of in *. rewrite Hi, Hn, Ha in Hr. rewrite Hr. f_equal.
  unfold restore_obj, fields_out. rewrite Hstk. destruct ident; cbn [store cur stack].
  - destruct (Hid eq_refl) as [-> ->]. reflexivity.
  - rewrite Hi, <- Hst. reflexivity.
Qed.

(* ---------- Uniquifier.get_unique_objs / map_unique_objs on the constructor's own output ---------- *)
Lemma uniq_go_idx_lt ids : forall i seen n j, In j (fst (uniq_go ids i seen n)) -> (i <= j < i + length ids)%nat.
Proof. exact (PackerProofs.uniq_go_idx_range ids). Qed.

Theorem get_unique_objs_refines (f : nat -> obj) ids uo inv' nu (us : list nat) :
  length us = length ids ->
  uniquifier_get_unique_objs (Z.of_nat (length ids)) uo (map Z.of_nat (fst (uniq_ids ids))) inv' nu false (Some (map f us)) =
  Ok (map f (select 0%nat us (fst (uniq_ids ids)))).
Proof.
  intros Hlen. unfold uniquifier_get_unique_objs, py_len. rewrite map_length, Hlen, Z.eqb_refl.
  rewrite (mapM_list_get (map f us) (f 0%nat)).
  - f_equal. unfold select. rewrite map_map. apply map_ext. intros i. apply map_nth.
  - intros j Hj. rewrite map_length, Hlen. unfold uniq_ids in Hj. pose proof (uniq_go_idx_lt ids 0 [] 0 j Hj). lia.
Qed.

(* with nothing passed, the unique objects kept by the constructor come back *)
Theorem get_unique_objs_default (n : Z) (uo : list obj) (ui inv' : list Z) (nu : Z) (au : bool) :
  uniquifier_get_unique_objs n uo ui inv' nu au None = Ok uo.
Proof. reflexivity. Qed.

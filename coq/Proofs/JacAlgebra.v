(* C17: Jacobian / Hessian operators. *)
From Coq Require Import ZArith.
From mathcomp Require Import all_ssreflect all_algebra.
From mathcomp Require Import ring.
From XV Require Import Base.Ops Base.Deriv Model.ExplicitRK Model.Quad Proofs.ExprDeriv.
Set Implicit Arguments.
Unset Strict Implicit.
Unset Printing Implicit Defensive.
Import GRing.Theory.
Local Open Scope ring_scope.

Section Hess.
Variable F : fieldType.
Notation ev := (feval (FieldOps F)).

(* mixed second partials of every expression commute (as values, in any field, at any point): the
   Hessian operator may use mv for rmv *)
Theorem hess_symmetric (e : fexp) (t : F) (ys : seq F) i j :
  ev (dfexp i (dfexp j e)) t ys = ev (dfexp j (dfexp i e)) t ys.
Proof.
elim: e => [|k|q|a IHa b IHb|a IHa b IHb|a IHa b IHb] //=.
- by case: (Nat.eqb k j); case: (Nat.eqb k i).
- by rewrite IHa IHb.
- by rewrite IHa IHb.
- rewrite IHa IHb /=; ring.
Qed.
End Hess.

Section JacProducts.
Variable R : comRingType.
Variables m n : nat.
Variable J : 'M[R]_(m, n).

(* rmv is the plain backward pass J^T g; mv is obtained by differentiating v |-> J^T v (linear in the
   dummy cotangent v) against u: its transpose is u |-> J u.  The two are adjoint to each other. *)
Theorem jac_mv_rmv_adjoint (u : 'cV[R]_n) (g : 'cV[R]_m) :
  \tr (g^T *m (J *m u)) = \tr ((J^T *m g)^T *m u).
Proof. by rewrite trmx_mul trmxK mulmxA. Qed.

Theorem double_backward_trick : (J^T)^T = J.
Proof. exact: trmxK. Qed.
End JacProducts.

(* C06, conjugate (complex Hermitian) case of the implicit backward pass of symeig, one non-degenerate kept column.
   Ring with a conjugation cj (an involutive ring morphism) and a derivation D that commutes with it (differentiation w.r.t. a REAL
   parameter); A^H = conj(A^T); A, M Hermitian; A x = e M x with e real, x^H M x = 1.  The eigenvector map is not holomorphic, so the
   cotangent pairing is the REAL part of the Hermitian inner product (PyTorch's convention), and the gauge freedom is the phase of x:
   the cotangent must not depend on it, i.e. x^H g is real.  With
       b = g - (x^H g) M x,   (A - e M) v = - b,   w = v - (x^H M v) x,
       accA = ge x + w,       accM = - ge e x - e w - 1/2 (x^H g) x           (exactly the code, with its .conj() calls)
   the identity   Re( g^H dx + ge de ) = Re( accA^H dA x + accM^H dM x )   holds for every tangent. *)
From mathcomp Require Import all_ssreflect all_algebra.
From mathcomp Require Import ring.
From XV Require Import Base.Deriv Base.MxDeriv Proofs.SymeigBackward.
Set Implicit Arguments.
Unset Strict Implicit.
Unset Printing Implicit Defensive.
Import GRing.Theory.
Local Open Scope ring_scope.

Section HDot.
Variable R : comRingType.
Variable cj : {rmorphism R -> R}.
Hypothesis cjK : involutive cj.
Local Notation "A ^H" := (map_mx cj A^T) (at level 2, format "A ^H").
Variable n : nat.
Implicit Types (u v w : 'cV[R]_n) (A : 'M[R]_n) (a : R).

Definition hdot u v : R := \tr (u^H *m v).

Lemma adjK m p (A : 'M[R]_(m, p)) : (A^H)^H = A.
Proof. by apply/matrixP=> i j; rewrite !mxE cjK. Qed.
Lemma adjM m p q (A : 'M[R]_(m, p)) (B : 'M[R]_(p, q)) : (A *m B)^H = B^H *m A^H.
Proof. by rewrite trmx_mul map_mxM. Qed.

Lemma hdotDl u v w : hdot (u + v) w = hdot u w + hdot v w.
Proof. by rewrite /hdot linearD /= map_mxD mulmxDl linearD. Qed.
Lemma hdotDr u v w : hdot u (v + w) = hdot u v + hdot u w.
Proof. by rewrite /hdot mulmxDr linearD. Qed.
Lemma hdotNl u v : hdot (- u) v = - hdot u v.
Proof. by rewrite /hdot linearN /= map_mxN mulNmx linearN. Qed.
Lemma hdotNr u v : hdot u (- v) = - hdot u v.
Proof. by rewrite /hdot mulmxN linearN. Qed.
Lemma hdotBl u v w : hdot (u - v) w = hdot u w - hdot v w.
Proof. by rewrite hdotDl hdotNl. Qed.
Lemma hdotBr u v w : hdot u (v - w) = hdot u v - hdot u w.
Proof. by rewrite hdotDr hdotNr. Qed.
Lemma hdotZl a u v : hdot (a *: u) v = cj a * hdot u v.
Proof. by rewrite /hdot linearZ /= map_mxZ -scalemxAl linearZ. Qed.
Lemma hdotZr a u v : hdot u (a *: v) = a * hdot u v.
Proof. by rewrite /hdot -scalemxAr linearZ. Qed.
Lemma hdot_mulr u A v : hdot u (A *m v) = hdot (A^H *m u) v.
Proof. by rewrite /hdot adjM adjK mulmxA. Qed.
Lemma hdotC u v : cj (hdot u v) = hdot v u.
Proof.
rewrite /hdot /mxtrace rmorph_sum /=; apply: eq_bigr => i _.
rewrite !mxE rmorph_sum /=; apply: eq_bigr => k _.
by rewrite !mxE rmorphM /= cjK mulrC.
Qed.
End HDot.

Section ConjBackward.
Variable R : comRingType.
Variable cj : {rmorphism R -> R}.
Hypothesis cjK : involutive cj.
Local Notation "A ^H" := (map_mx cj A^T) (at level 2, format "A ^H").
Variable D : derivation R.
Hypothesis Dcj : forall a, D (cj a) = cj (D a).
Variable n : nat.
Local Notation d := (dmx D).
Local Notation hd := (hdot cj).
Variables (A M : 'M[R]_n) (x : 'cV[R]_n) (e : R).
Hypothesis HA : A^H = A.
Hypothesis HM : M^H = M.
Hypothesis He : cj e = e.
Hypothesis Heig : A *m x = e *: (M *m x).
Hypothesis Hnorm : hd x (M *m x) = 1.
Variable half : R.
Hypothesis halfP : half + half = 1.

Definition Re (z : R) : R := half * (z + cj z).

Lemma d_adj m p (U : 'M[R]_(m, p)) : d (U^H) = (d U)^H.
Proof. by apply/matrixP=> i j; rewrite !mxE Dcj. Qed.

Lemma d_hdot (u v : 'cV[R]_n) : D (hd u v) = hd (d u) v + hd u (d v).
Proof. by rewrite /hdot d_trace dmxM linearD /= d_adj. Qed.

Lemma dM_herm : (d M)^H = d M.
Proof. by rewrite -d_adj HM. Qed.

(* x^H (A - e M) = 0 *)
Lemma left_eig_conj (u : 'cV[R]_n) : hd x (A *m u) = e * hd x (M *m u).
Proof. by rewrite hdot_mulr // HA Heig hdotZl He [in RHS]hdot_mulr // HM. Qed.

(* Hellmann-Feynman, Hermitian case *)
Theorem eigval_tangent_conj : D e = hd x (d A *m x) - e * hd x (d M *m x).
Proof.
have := congr1 (hd x) (eig_tangent_eq D Heig).
rewrite !hdotDr !hdotZr !hdotDr Hnorm left_eig_conj.
set a := hd x (d A *m x); set b := hd x (d M *m x); set c := hd x (M *m d x) => H.
have -> : D e = (D e * 1 + e * (b + c)) - e * (b + c) by ring.
by rewrite -H; ring.
Qed.

(* tangent of the normalisation: 2 Re(x^H M dx) = - x^H dM x *)
Lemma norm_tangent_conj : hd x (M *m d x) + cj (hd x (M *m d x)) = - hd x (d M *m x).
Proof.
have := congr1 D Hnorm; rewrite der1 d_hdot dmxM hdotDr.
have -> : hd (d x) (M *m x) = cj (hd x (M *m d x)).
  by rewrite hdotC // hdot_mulr // HM.
set a := hd x (M *m d x); set t := hd x (d M *m x) => H.
have -> : a + cj a = (cj a + (t + a)) - t by ring.
by rewrite H; ring.
Qed.

(* x^H dM x is real *)
Lemma T_real : cj (hd x (d M *m x)) = hd x (d M *m x).
Proof. by rewrite hdotC // hdot_mulr // dM_herm. Qed.

Lemma cj_half : cj half = half.
Proof.
have H1 : cj half + cj half = 1 by rewrite -rmorphD halfP rmorph1.
by rewrite -[LHS]mulr1 -halfP mulrDr -mulrDl H1 mul1r.
Qed.

(* the code for one kept column; the cotangent of the (real) eigenvalue is real, and the cotangent of the vector does not depend on
   the phase of x: x^H g is real *)
Variables (g v : 'cV[R]_n) (ge : R).
Hypothesis Hge : cj ge = ge.
Let gam := hd x g.
Hypothesis Hgauge : cj gam = gam.
Let b := g - gam *: (M *m x).
Hypothesis Hsolve : A *m v - e *: (M *m v) = - b.
Let w := v - hd x (M *m v) *: x.
Let accA := ge *: x + w.
Let accM := - (ge * e) *: x - e *: w - (half * gam) *: x.

Lemma wc_M_orth : hd w (M *m x) = 0.
Proof.
rewrite /w hdotBl hdotZl Hnorm mulr1 hdotC //.
by rewrite [hd v _]hdot_mulr // HM subrr.
Qed.

Lemma wc_shift (u : 'cV[R]_n) : hd w (A *m u) - e * hd w (M *m u) = - hd b u.
Proof.
have Hv : hd v (A *m u) - e * hd v (M *m u) = - hd b u.
  rewrite !hdot_mulr // HA HM.
  have -> : e * hd (M *m v) u = hd (e *: (M *m v)) u by rewrite hdotZl He.
  by rewrite -hdotBl Hsolve hdotNl.
rewrite -Hv /w !hdotBl !hdotZl left_eig_conj.
set c := cj _; set p := hd x (M *m u); set q := hd v (A *m u); set r := hd v (M *m u).
by ring.
Qed.

Theorem eigpair_backward_adjoint_conj :
  Re (hd g (d x) + ge * D e) = Re (hd accA (d A *m x) + hd accM (d M *m x)).
Proof.
set dx := d x; set dAx := d A *m x; set dMx := d M *m x.
have HF : D e = hd x dAx - e * hd x dMx := eigval_tangent_conj.
have HT := eigvec_tangent D Heig.
have HN := norm_tangent_conj.
have Hw : hd w dAx - e * hd w dMx = hd b dx.
  have := congr1 (hd w) HT.
  rewrite hdotBr hdotZr wc_shift hdotDr hdotNr hdotBr !hdotZr wc_M_orth mulr0 addr0 -/dx -/dAx -/dMx.
  by move/eqP; rewrite eqr_opp => /eqP ->.
have Hb : hd b dx = hd g dx - gam * hd x (M *m dx).
  by rewrite /b hdotBl hdotZl Hgauge hdot_mulr // HM.
have EA : hd accA dAx = ge * hd x dAx + hd w dAx by rewrite /accA hdotDl hdotZl Hge.
have EM : hd accM dMx = - (ge * e * hd x dMx) - e * hd w dMx - half * gam * hd x dMx.
  by rewrite /accM 2!hdotBl !hdotZl rmorphN !rmorphM /= Hge He cj_half Hgauge mulNr.
rewrite EA EM HF.
have -> : hd g dx = hd b dx + gam * hd x (M *m dx) by rewrite Hb subrK.
rewrite -Hw.
move: HN (T_real); rewrite -/dx -/dMx.
set a1 := hd x dAx; set T := hd x dMx; set w1 := hd w dAx; set w2 := hd w dMx.
set c := hd x (M *m dx) => HN HT2.
have Hc : cj c = - T - c by rewrite -HN; ring.
pose W1 := cj w1; pose W2 := cj w2; pose A1 := cj a1.
have CL : cj (w1 - e * w2 + gam * c + ge * (a1 - e * T)) = W1 - e * W2 + gam * (- T - c) + ge * (A1 - e * T).
  by rewrite !(rmorphD, rmorphB, rmorphM, rmorphN) /= He Hge Hgauge HT2 Hc.
have CR : cj (ge * a1 + w1 + (- (ge * e * T) - e * w2 - half * gam * T))
        = ge * A1 + W1 + (- (ge * e * T) - e * W2 - half * gam * T).
  by rewrite !(rmorphD, rmorphB, rmorphM, rmorphN) /= He Hge Hgauge HT2 cj_half.
rewrite /Re CL CR.
apply/eqP; rewrite -subr_eq0; apply/eqP.
rewrite [LHS](_ : _ = half * gam * T * ((half + half) - 1)); last by ring.
by rewrite halfP subrr mulr0.
Qed.
End ConjBackward.

From Coq Require Import List Bool Arith Lia ZArith.
Import ListNotations.
From XV Require Import Base.Ops Model.Samplers.

Section Facts.
  Context {T : Type} (o : ops T).
  Variable logp : T -> T.
  Variable custom_step : T -> T.

  Lemma mh_chain_length : forall noise logu x lp step,
    length (fst (mh_chain o logp x lp step noise logu)) = Nat.min (length noise) (length logu).
  Proof.
    induction noise as [|z nr IH]; intros [|lu lr] x lp step; try reflexivity.
    cbn [mh_chain]. set (xn := oadd o x (omul o step z)).
    set (acc := if oltb o (o0 o) (osub o (logp xn) lp) then true else oltb o lu (osub o (logp xn) lp)).
    specialize (IH lr (if acc then xn else x) (if acc then logp xn else lp) step).
    destruct (mh_chain o logp _ _ step nr lr) as [rest last]. cbn [fst length] in *. rewrite IH. reflexivity.
  Qed.

  (* the acceptance rule of one step: the new state is the proposal iff
     logp' - logp > 0 or log u < logp' - logp, otherwise the old state is kept *)
  Theorem mh_step_rule x lp step z lu :
    let xnext := oadd o x (omul o step z) in
    let ratio := osub o (logp xnext) lp in
    mh_chain o logp x lp step [z] [lu] =
    (if oltb o (o0 o) ratio || oltb o lu ratio then ([xnext], xnext) else ([x], x)).
  Proof.
    cbn. destruct (oltb o (o0 o) _); cbn; [reflexivity|]. destruct (oltb o lu _); reflexivity.
  Qed.

  (* mh: exactly nsamples samples after nburnout burn-in steps (given enough random numbers) *)
  Theorem mh_counts x0 step nburnout nsamples noise logu :
    nburnout + nsamples <= length noise -> nburnout + nsamples <= length logu ->
    length (fst (mh o logp x0 step nburnout nsamples noise logu)) = nsamples /\
    length (snd (mh o logp x0 step nburnout nsamples noise logu)) = nsamples.
  Proof.
    intros Hn Hl. unfold mh.
    destruct (mh_chain o logp x0 (logp x0) step (firstn nburnout noise) (firstn nburnout logu)) as [burn xb].
    pose proof (mh_chain_length (firstn nsamples (skipn nburnout noise)) (firstn nsamples (skipn nburnout logu))
                                xb (logp xb) step) as L.
    destruct (mh_chain o logp xb (logp xb) step _ _) as [samples last]. cbn [fst snd] in *.
    rewrite map_length, L, !firstn_length, !skipn_length. lia.
  Qed.

  Lemma collect_length n x : length (collect custom_step n x) = n.
  Proof. revert x. induction n as [|n IH]; intros x; cbn; [reflexivity|]. rewrite IH. reflexivity. Qed.

  Lemma collect_nth n : forall x i, i < n -> nth i (collect custom_step n x) x = iter custom_step i x.
  Proof.
    induction n as [|n IH]; intros x i Hi; [lia|]. destruct i as [|i]; [reflexivity|].
    cbn [collect nth iter]. rewrite (nth_indep _ x (custom_step x)) by (rewrite collect_length; lia).
    apply IH. lia.
  Qed.

  Lemma iter_add a b x : iter custom_step (a + b) x = iter custom_step b (iter custom_step a x).
  Proof. revert x. induction a as [|a IH]; intros x; [reflexivity|]. cbn. apply IH. Qed.

  (* mhcustom: exactly nsamples samples; sample i is the state after (nburnout-1) + i steps from x0 *)
  Theorem mhcustom_spec x0 nburnout nsamples :
    let '(xs, ws) := mhcustom o custom_step x0 nburnout nsamples in
    length xs = nsamples /\ length ws = nsamples /\
    forall i, i < nsamples -> nth i xs x0 = iter custom_step (pred nburnout + i) x0.
  Proof.
    unfold mhcustom. rewrite map_length, collect_length. repeat split; auto.
    intros i Hi. rewrite (nth_indep _ x0 (iter custom_step (pred nburnout) x0)) by (rewrite collect_length; lia).
    rewrite collect_nth by lia. rewrite iter_add. reflexivity.
  Qed.

  (* uniform weights 1/n *)
  Theorem weights_uniform x0 nburnout nsamples w :
    In w (snd (mhcustom o custom_step x0 nburnout nsamples)) ->
    w = odiv o (o1 o) (ofZ o (Z.of_nat nsamples)).
  Proof.
    unfold mhcustom. cbn [snd]. rewrite collect_length. intros H. apply in_map_iff in H.
    destruct H as (y & <- & _). reflexivity.
  Qed.
End Facts.

From Coq Require Import QArith List Bool Arith Lia.
Import ListNotations.
From XV Require Import Base.Ops Model.ExplicitRK Model.AdaptiveRK.

Section ExplicitFacts.
  Context {T : Type} (o : ops T).
  Variable f : T -> list T -> list T.
  Variables (c b : list T) (a : list (list T)).

  Notation run := (explicit_rk o f c b a).
  Notation loop := (rk_loop o f c b a).
  Notation step1 := (rk_step1 o f c b a).

  Lemma loop_cons t0 t1 r y :
    loop (t0 :: t1 :: r) y =
    (fst (step1 t0 t1 y) :: fst (loop (t1 :: r) (fst (step1 t0 t1 y))),
     snd (step1 t0 t1 y) ++ snd (loop (t1 :: r) (fst (step1 t0 t1 y)))).
  Proof.
    change (loop (t0 :: t1 :: r) y) with
      (let '(y', calls) := step1 t0 t1 y in
       let '(ys, calls') := loop (t1 :: r) y' in (y' :: ys, calls ++ calls')).
    destruct (step1 t0 t1 y) as [y' calls]. cbn [fst snd].
    destruct (loop (t1 :: r) y') as [ys calls']. reflexivity.
  Qed.

  Lemma loop_length ts : forall y, length (fst (loop ts y)) = pred (length ts).
  Proof.
    induction ts as [|t0 r IH]; intros y; [reflexivity|].
    destruct r as [|t1 r']; [reflexivity|].
    rewrite loop_cons. cbn [fst length pred]. rewrite IH. reflexivity.
  Qed.

  (* y(ts[0]) = y0 exactly, one output per requested time *)
  Theorem explicit_first_is_y0 ts y0 : hd_error (fst (run ts y0)) = Some y0.
  Proof. unfold explicit_rk. destruct (loop ts y0). reflexivity. Qed.

  Theorem explicit_length ts y0 : ts <> [] -> length (fst (run ts y0)) = length ts.
  Proof.
    intros H. unfold explicit_rk. pose proof (loop_length ts y0) as L.
    destruct (loop ts y0) as [ys calls]. cbn [fst length] in *. rewrite L.
    destruct ts; [contradiction|reflexivity].
  Qed.

  (* values at a time point do not depend on time points requested after it *)
  Lemma loop_prefix ts more : forall y,
    firstn (pred (length ts)) (fst (loop (ts ++ more) y)) = fst (loop ts y).
  Proof.
    induction ts as [|t0 r IH]; intros y; [reflexivity|].
    destruct r as [|t1 r']; [reflexivity|].
    change ((t0 :: t1 :: r') ++ more) with (t0 :: t1 :: (r' ++ more)).
    rewrite !loop_cons. cbn [fst length pred firstn].
    specialize (IH (fst (step1 t0 t1 y))). cbn [app length pred] in IH. rewrite IH. reflexivity.
  Qed.

  Theorem explicit_prefix ts more y0 : ts <> [] ->
    firstn (length ts) (fst (run (ts ++ more) y0)) = fst (run ts y0).
  Proof.
    intros H. unfold explicit_rk. pose proof (loop_prefix ts more y0) as P.
    destruct (loop (ts ++ more) y0) as [ys1 c1]. destruct (loop ts y0) as [ys2 c2].
    cbn [fst] in *. destruct ts as [|t r]; [contradiction|]. cbn [length firstn pred] in *.
    rewrite P. reflexivity.
  Qed.

  (* exactly one application of the scheme per interval: s evaluations of fcn *)
  Lemma stages_calls : forall cs bs arows j t0 h y ks ksum,
    length (snd (stages o f j cs bs arows t0 h y ks ksum)) =
    Nat.min (length cs) (Nat.min (length bs) (length arows)).
  Proof.
    induction cs as [|cj cr IH]; intros bs arows j t0 h y ks ksum; [reflexivity|].
    destruct bs as [|bj br]; [reflexivity|]. destruct arows as [|aj ar]; [reflexivity|].
    cbn [stages].
    destruct (match j with O => _ | S _ => _ end) as [targ yarg].
    match goal with |- context [stages o f (S j) cr br ar t0 h y ?K ?KS] =>
      specialize (IH br ar (S j) t0 h y K KS); destruct (stages o f (S j) cr br ar t0 h y K KS) as [res calls] end.
    cbn [snd length] in *. rewrite IH. reflexivity.
  Qed.

  Lemma step1_calls t0 t1 y : length c = length b -> length c = length a ->
    length (snd (step1 t0 t1 y)) = length c.
  Proof.
    intros Hb Ha. unfold rk_step1.
    pose proof (stages_calls c b a 0 t0 (osub o t1 t0) y [] None) as HS.
    destruct (stages o f 0 c b a t0 (osub o t1 t0) y [] None) as [ksum calls]. cbn [snd] in *.
    rewrite HS, <- Hb, <- Ha, !Nat.min_id. reflexivity.
  Qed.

  Theorem explicit_calls_per_interval ts y0 :
    length c = length b -> length c = length a ->
    length (snd (run ts y0)) = (pred (length ts) * length c)%nat.
  Proof.
    intros Hb Ha. unfold explicit_rk.
    assert (L : forall ts y, length (snd (loop ts y)) = (pred (length ts) * length c)%nat).
    { clear ts y0. induction ts as [|t0 r IH]; intros y; [reflexivity|].
      destruct r as [|t1 r']; [reflexivity|].
      rewrite loop_cons. cbn [snd]. rewrite app_length, IH, (step1_calls t0 t1 y Hb Ha).
      cbn [length pred]. lia. }
    specialize (L ts y0). destruct (loop ts y0) as [ys calls]. exact L.
  Qed.

  (* the first evaluation of every interval is at (t_i, y_i) itself *)
  Theorem explicit_first_call t0 t1 r y0 : c <> [] -> b <> [] -> a <> [] ->
    hd_error (snd (run (t0 :: t1 :: r) y0)) = Some (t0, y0).
  Proof.
    intros Hc Hb Ha. unfold explicit_rk. rewrite loop_cons. cbn [snd].
    unfold rk_step1. destruct c as [|cj cr]; [contradiction|]. destruct b as [|bj br]; [contradiction|].
    destruct a as [|aj ar]; [contradiction|]. cbn [stages].
    match goal with |- context [stages o f 1 cr br ar t0 ?h y0 ?K ?KS] =>
      destruct (stages o f 1 cr br ar t0 h y0 K KS) as [res calls] end.
    reflexivity.
  Qed.
End ExplicitFacts.

(* ---------- adaptive controller ---------- *)
Section AdaptiveFacts.
  Context {T : Type} (o : ops T).
  Variable func : T -> list T -> list T.
  Variables (A : list (list T)) (B C E : list T).
  Variables (atol rtol max_factor min_factor step_mult : T).
  Variable qp1 : nat.

  Notation try := (try_step o func A B C E atol rtol max_factor min_factor step_mult qp1).
  Notation single := (single_step o func A B C E atol rtol max_factor min_factor step_mult qp1).

  Lemma accepted_is_lt st t1 pr :
    at_accepted (try st t1 pr) = oltb o (at_errnorm (try st t1 pr)) (o1 o).
  Proof.
    unfold try_step. destruct st as [f0 t0 y0 h].
    destruct (rk_step o func A B C t0 y0 f0 _) as [[[ynew fnew] K] calls]. reflexivity.
  Qed.

  (* every step the controller commits was accepted: its scaled error estimate is < 1 in the
     carrier's own order; every attempt before it was rejected *)
  Theorem adaptive_accept_bound : forall fuel st t1 pr st' reached l,
    single fuel st t1 pr = (Some (st', reached), l) ->
    exists pre last, l = pre ++ [last] /\
      Forall (fun a => at_accepted a = false) pre /\
      at_accepted last = true /\ oltb o (at_errnorm last) (o1 o) = true /\
      at_state last = st' /\ at_t1_achieved last = reached.
  Proof.
    induction fuel as [|n IH]; intros st t1 pr st' reached l H; cbn [single_step] in H; [discriminate|].
    destruct (at_accepted (try st t1 pr)) eqn:Eacc.
    - inversion H; subst. exists [], (try st t1 pr). repeat split; auto.
      rewrite <- accepted_is_lt. exact Eacc.
    - match type of H with context [single n ?S t1 true] => destruct (single n S t1 true) as [r l'] eqn:Er end.
      inversion H; subst.
      destruct (IH _ _ _ _ _ _ Er) as (pre & last & -> & Hpre & Hlast).
      exists (try st t1 pr :: pre), last. split; [reflexivity|]. split; [constructor; assumption|exact Hlast].
  Qed.

  (* the attempt that reaches the requested time steps exactly onto it: hstep = t1 - t0 *)
  Theorem adaptive_lands_on_target st t1 pr :
    at_t1_achieved (try st t1 pr) = true ->
    at_hstep (try st t1 pr) = osub o t1 (s_t st) /\
    s_t (at_state (try st t1 pr)) = oadd o (s_t st) (osub o t1 (s_t st)).
  Proof.
    unfold try_step. destruct st as [f0 t0 y0 h].
    destruct (oltb o t1 (oadd o t0 h)) eqn:Elt; cbn [s_t].
    - destruct (rk_step o func A B C t0 y0 f0 (osub o t1 t0)) as [[[ynew fnew] K] calls]. cbn. auto.
    - destruct (rk_step o func A B C t0 y0 f0 h) as [[[ynew fnew] K] calls]. cbn. discriminate.
  Qed.

  (* step-size bounds, in the carrier's own order *)
  Lemma omax_ge a x : omax o a x = a \/ (omax o a x = x /\ oltb o a x = true).
  Proof. unfold omax. destruct (oltb o a x); auto. Qed.
  Lemma omin_le a x : omin o a x = a \/ (omin o a x = x /\ oltb o x a = true).
  Proof. unfold omin. destruct (oltb o x a); auto. Qed.

  Theorem adaptive_factor_bounds st t1 pr :
    let a := try st t1 pr in
    (at_accepted a = false ->
       exists g, s_h (at_state a) = omul o (at_hstep a) g /\
                 (g = min_factor \/ oltb o min_factor g = true)) /\
    (at_accepted a = true -> at_t1_achieved a = false ->
       exists g, s_h (at_state a) = omul o (s_h st) g /\
                 (g = max_factor \/ oltb o g max_factor = true \/ g = o1 o) /\
                 (pr = true -> g = o1 o \/ oltb o g (o1 o) = true)) /\
    (at_accepted a = true -> at_t1_achieved a = true -> s_h (at_state a) = s_h st).
  Proof.
    unfold try_step. destruct st as [f0 t0 y0 h]. cbn [s_h].
    destruct (rk_step o func A B C t0 y0 f0 _) as [[[ynew fnew] K] calls].
    cbn [at_accepted at_t1_achieved at_state at_hstep s_h].
    set (err := odiv o _ _). set (t1a := oltb o t1 (oadd o t0 h)).
    destruct (oltb o err (o1 o)) eqn:Eacc; cbn [andb negb].
    - split; [discriminate|]. split.
      + intros _ Ht. rewrite Ht. cbn [negb].
        set (fac0 := if oeqb o err (o0 o) then max_factor else omin o max_factor _).
        assert (H0 : fac0 = max_factor \/ oltb o fac0 max_factor = true).
        { unfold fac0. destruct (oeqb o err (o0 o)); [auto|].
          destruct (omin_le max_factor (omul o step_mult (pow_neg_inv o qp1 err))) as [->|[-> Hlt]]; auto. }
        destruct pr.
        * destruct (omin_le (o1 o) fac0) as [Hm|[Hm Hlt]]; rewrite Hm.
          -- exists (o1 o). split; [reflexivity|]. split; [auto|]. intros _. auto.
          -- exists fac0. split; [reflexivity|]. split; [tauto|]. intros _. auto.
        * exists fac0. split; [reflexivity|]. split; [tauto|]. discriminate.
      + intros _ Ht. rewrite Ht. reflexivity.
    - split; [|split; discriminate]. intros _.
      destruct (omax_ge min_factor (omul o step_mult (pow_neg_inv o qp1 err))) as [Hm|[Hm Hlt]]; rewrite Hm.
      + exists min_factor. auto.
      + eexists. split; [reflexivity|]. auto.
  Qed.
End AdaptiveFacts.

(* C04: implicit-function gradients.  f(y, theta) = 0 with J = df/dy, P = df/dtheta. *)
From mathcomp Require Import all_ssreflect all_algebra.
From XV Require Import Base.Deriv Base.MxDeriv.
Set Implicit Arguments.
Unset Strict Implicit.
Unset Printing Implicit Defensive.
Import GRing.Theory.
Local Open Scope ring_scope.

Section IFT.
Variable R : comRingType.
Variables n p : nat.
Variables (J : 'M[R]_n) (P : 'M[R]_(n, p)).
Variables (dy : 'cV[R]_n) (dth : 'cV[R]_p).

(* the tangent of f(y(theta), theta) = 0 is J dy + P dtheta = 0; the code's backward: solve J^T g = -G,
   then pull g back through theta |-> f(y*, theta), i.e. return P^T g.  For every tangent:  <G, dy> = <P^T g, dtheta> *)
Theorem ift_backward_adjoint (G g : 'cV[R]_n) :
  J *m dy + P *m dth = 0 -> J^T *m g = - G ->
  \tr (G^T *m dy) = \tr ((P^T *m g)^T *m dth).
Proof.
move=> Ht Hg.
have -> : G = - (J^T *m g) by rewrite Hg opprK.
rewrite linearN /= trmx_mul trmxK mulNmx -mulmxA.
have -> : J *m dy = - (P *m dth) by apply/eqP; rewrite -addr_eq0 Ht.
by rewrite mulmxN opprK trmx_mul trmxK mulmxA.
Qed.

End IFT.

Section Unique.
Variable R : comUnitRingType.
Variables n p : nat.
Variables (J : 'M[R]_n) (P : 'M[R]_(n, p)).
(* equilibrium: f(y) - y has J = F_y - I; minimize: J is the Hessian (symmetric): same theorem.
   The gradient is a function of (y*, theta) only: neither the forward method nor y0 occurs in it. *)
Theorem ift_unique_gradient (G g g' : 'cV[R]_n) : J \in unitmx ->
  J^T *m g = - G -> J^T *m g' = - G -> P^T *m g = P^T *m g'.
Proof.
move=> uJ H H'; have uJT : J^T \in unitmx by rewrite unitmx_tr.
by rewrite -(mulKmx uJT g) H -H' mulKmx.
Qed.
End Unique.

From Coq Require Import String Ascii List Bool Arith Lia.
Import ListNotations.
From XV Require Import Model.Dispatch.
Open Scope string_scope.

Lemma lower_ascii_idem c : lower_ascii (lower_ascii c) = lower_ascii c.
Proof. destruct c as [[] [] [] [] [] [] [] []]; vm_compute; reflexivity. Qed.

Lemma lower_idem s : lower (lower s) = lower s.
Proof. induction s as [|c r IH]; cbn; [reflexivity|]. rewrite lower_ascii_idem, IH. reflexivity. Qed.

Lemma lower_meth_idem m : lower_meth (lower_meth m) = lower_meth m.
Proof. destruct m; cbn; try reflexivity. rewrite lower_idem. reflexivity. Qed.

Lemma with_default_lower d m :
  lower_meth (with_default d (lower_meth m)) = lower_meth (with_default d m).
Proof. destruct m; cbn; try reflexivity. rewrite lower_idem. reflexivity. Qed.

(* get_method only ever looks at the lower-cased name *)
Lemma get_method_lower fam t m : get_method fam t (lower_meth m) = get_method fam t m.
Proof. destruct m; cbn; try reflexivity. rewrite lower_idem. reflexivity. Qed.

Theorem get_method_case_insensitive fam t s :
  get_method fam t (MStr s) = get_method fam t (MStr (lower s)).
Proof. symmetry. apply (get_method_lower fam t (MStr s)). Qed.

Theorem get_method_unknown fam t s : tlookup (lower s) t = None -> get_method fam t (MStr s) = ErrUnknown.
Proof. intros H. cbn. rewrite H. reflexivity. Qed.

Theorem get_method_callable fam t i : get_method fam t (MCall i) = Custom fam i.
Proof. reflexivity. Qed.

Theorem get_method_other fam t : get_method fam t MOther = ErrType.
Proof. reflexivity. Qed.

Lemma tlookup_In k v t : tlookup k t = Some v -> In (k, v) t.
Proof.
  induction t as [|[k' v'] r IH]; cbn; [discriminate|].
  destruct (String.eqb_spec k k') as [->|Hn]; [intros [= ->]; auto|auto].
Qed.

Lemma tlookup_first k v t : NoDup (map fst t) -> In (k, v) t -> tlookup k t = Some v.
Proof.
  induction t as [|[k' v'] r IH]; cbn; [tauto|]. intros Hnd [H|H].
  - inversion H; subst. rewrite String.eqb_refl. reflexivity.
  - inversion Hnd as [|? ? Hnotin Hnd']; subst.
    destruct (String.eqb_spec k k') as [->|Hn]; [|auto].
    exfalso. apply Hnotin. change k' with (fst (k', v)). apply in_map. exact H.
Qed.

(* a name that is a key (keys lower-case) runs exactly its own entry, in any letter case *)
Theorem known_name_runs fam t k impl s :
  NoDup (map fst t) -> In (k, impl) t -> lower s = k -> get_method fam t (MStr s) = Ran fam impl.
Proof. intros Hnd Hin Hl. cbn. rewrite Hl, (tlookup_first k impl t Hnd Hin). reflexivity. Qed.

(* ---------- case-insensitivity of every functional's dispatch, for ANY tables ---------- *)
Section CI.
  Variables t_solve t_symeig t_rf t_equil t_opt t_pre_equil t_pre_rf
            t_ivp t_quad t_mcquad t_interp t_squad : table.
  Variables d_rf d_equil d_min d_ivp d_quad d_mcquad d_interp d_squad : string.

  Lemma ci_solve dflt s :
    dispatch_solve t_solve dflt (MStr s) = dispatch_solve t_solve dflt (MStr (lower s)).
  Proof. unfold dispatch_solve. cbn. rewrite !lower_idem. reflexivity. Qed.

  Lemma ci_symeig s : dispatch_symeig t_symeig (MStr s) = dispatch_symeig t_symeig (MStr (lower s)).
  Proof. unfold dispatch_symeig. cbn. rewrite !lower_idem. reflexivity. Qed.

  Lemma ci_rootfinder s :
    dispatch_rootfinder t_rf d_rf (MStr s) = dispatch_rootfinder t_rf d_rf (MStr (lower s)).
  Proof. unfold dispatch_rootfinder. cbn. rewrite !lower_idem. reflexivity. Qed.

  Lemma ci_equilibrium s :
    dispatch_equilibrium t_rf t_equil t_pre_equil d_equil (MStr s) =
    dispatch_equilibrium t_rf t_equil t_pre_equil d_equil (MStr (lower s)).
  Proof. unfold dispatch_equilibrium. cbn. rewrite !lower_idem. reflexivity. Qed.

  Lemma ci_minimize s :
    dispatch_minimize t_rf t_opt t_pre_rf d_min (MStr s) =
    dispatch_minimize t_rf t_opt t_pre_rf d_min (MStr (lower s)).
  Proof. unfold dispatch_minimize. cbn. rewrite !lower_idem. reflexivity. Qed.

  Lemma ci_table_only fam t d s :
    get_method fam t (with_default d (MStr s)) = get_method fam t (with_default d (MStr (lower s))).
  Proof. cbn. rewrite !lower_idem. reflexivity. Qed.

  (* unknown names are rejected, never defaulted *)
  Lemma unknown_solve dflt s : lower s <> "exactsolve" -> tlookup (lower s) t_solve = None ->
    dispatch_solve t_solve dflt (MStr s) = ErrUnknown.
  Proof.
    intros Hn Hl. unfold dispatch_solve. cbn.
    destruct (String.eqb_spec (lower s) "exactsolve"); [contradiction|]. rewrite lower_idem, Hl. reflexivity.
  Qed.

  Lemma unknown_symeig s : lower s <> "exacteig" -> tlookup (lower s) t_symeig = None ->
    dispatch_symeig t_symeig (MStr s) = ErrUnknown.
  Proof.
    intros Hn Hl. unfold dispatch_symeig. cbn.
    destruct (String.eqb_spec (lower s) "exacteig"); [contradiction|]. rewrite lower_idem, Hl. reflexivity.
  Qed.

  Lemma unknown_equilibrium s :
    tlookup (lower s) t_equil = None -> tlookup (lower s) t_rf = None ->
    dispatch_equilibrium t_rf t_equil t_pre_equil d_equil (MStr s) = ErrUnknown.
  Proof.
    intros H1 H2. unfold dispatch_equilibrium. cbn. rewrite lower_idem, H1, H2.
    destruct (tmem (lower s) t_pre_equil); reflexivity.
  Qed.

  Lemma unknown_minimize s :
    tlookup (lower s) t_opt = None -> tlookup (lower s) t_rf = None ->
    dispatch_minimize t_rf t_opt t_pre_rf d_min (MStr s) = ErrUnknown.
  Proof.
    intros H1 H2. unfold dispatch_minimize. cbn. rewrite lower_idem, H1, H2.
    destruct (tmem (lower s) t_pre_rf); reflexivity.
  Qed.

  (* callables are passed through by every functional *)
  Lemma callable_all dflt i :
    dispatch_solve t_solve dflt (MCall i) = Custom "solve" i /\
    dispatch_symeig t_symeig (MCall i) = Custom "symeig" i /\
    dispatch_rootfinder t_rf d_rf (MCall i) = Custom "rootfinder" i /\
    dispatch_equilibrium t_rf t_equil t_pre_equil d_equil (MCall i) = Custom "rootfinder" i /\
    dispatch_minimize t_rf t_opt t_pre_rf d_min (MCall i) = Custom "minimizer" i /\
    dispatch_ivp t_ivp d_ivp (MCall i) = Custom "solve_ivp" i /\
    dispatch_quad t_quad d_quad (MCall i) = Custom "quad" i /\
    dispatch_mcquad t_mcquad d_mcquad (MCall i) = Custom "mcquad" i /\
    dispatch_interp t_interp d_interp (MCall i) = Custom "Interp1D" i /\
    dispatch_squad t_squad d_squad (MCall i) = Custom "SQuad" i.
  Proof. repeat split; reflexivity. Qed.
End CI.

(* ---------- options ---------- *)
Lemma oget_oset_same k v o : oget k (oset k v o) = Some v.
Proof.
  induction o as [|[k' v'] r IH]; cbn.
  - rewrite String.eqb_refl. reflexivity.
  - destruct (String.eqb_spec k k') as [->|Hn]; cbn.
    + rewrite String.eqb_refl. reflexivity.
    + destruct (String.eqb_spec k k'); [contradiction|exact IH].
Qed.

Lemma oget_oset_other k k2 v o : k <> k2 -> oget k (oset k2 v o) = oget k o.
Proof.
  intros Hn. induction o as [|[k' v'] r IH]; cbn.
  - destruct (String.eqb_spec k k2); [contradiction|reflexivity].
  - destruct (String.eqb_spec k2 k') as [->|Hn2]; cbn.
    + destruct (String.eqb_spec k k'); [contradiction|reflexivity].
    + destruct (String.eqb_spec k k'); [reflexivity|exact IH].
Qed.

(* set_default_option(defopt, opt): a key of opt wins, otherwise the default is used *)
Theorem options_union_spec opt : forall defopt k,
  oget k (set_default_option defopt opt) =
  match oget k (rev opt) with Some v => Some v | None => oget k defopt end.
Proof.
  unfold set_default_option.
  induction opt as [|[k' v'] r IH]; intros defopt k; cbn; [reflexivity|].
  rewrite IH. clear IH.
  assert (H : forall (l : opts) (a : string * nat),
             oget k (l ++ [a])%list = match oget k l with Some v => Some v | None =>
                                   if String.eqb k (fst a) then Some (snd a) else None end).
  { induction l as [|[k2 v2] l IHl]; intros [ka va]; cbn; [reflexivity|].
    destruct (String.eqb k k2); [reflexivity|apply IHl]. }
  rewrite H. cbn. destruct (oget k (rev r)); [reflexivity|].
  destruct (String.eqb_spec k k') as [->|Hn].
  - apply oget_oset_same.
  - apply oget_oset_other. exact Hn.
Qed.

Lemma oget_oremove_same k o : oget k (oremove k o) = None.
Proof.
  induction o as [|[k' v'] r IH]; cbn; [reflexivity|].
  destruct (String.eqb_spec k k') as [->|Hn]; [exact IH|]. cbn.
  destruct (String.eqb_spec k k'); [contradiction|exact IH].
Qed.

Lemma oget_oremove_other k k2 o : k <> k2 -> oget k (oremove k2 o) = oget k o.
Proof.
  intros Hn. induction o as [|[k' v'] r IH]; cbn; [reflexivity|].
  destruct (String.eqb_spec k2 k') as [->|Hn2].
  - destruct (String.eqb_spec k k'); [contradiction|exact IH].
  - cbn. destruct (String.eqb_spec k k'); [reflexivity|exact IH].
Qed.

(* the forward method receives the caller's options minus `method`, nothing else changed *)
Theorem custom_receives_options fwd k :
  oget k (fwd_kwargs fwd) = if String.eqb k "method" then None else oget k fwd.
Proof.
  unfold fwd_kwargs. destruct (String.eqb_spec k "method") as [->|Hn].
  - apply oget_oremove_same.
  - apply oget_oremove_other. exact Hn.
Qed.

(* The code in front of the method dispatch of solve() and symeig() AS TRANSLATED FROM /repo ON THIS RUN (Gen/PyDispatch.v,
   Gen/PyDispatchEig.v; what the source asks about the operators - dense? small? Hermitian? - are inputs): it computes the default
   name and lower-cases names exactly as dispatch_solve / dispatch_symeig of Model/Dispatch.v assume (C18: case-insensitive names,
   no silent default, callables and other objects passed through untouched). *)
From Coq Require Import ZArith List Bool Lia.
From Coq Require String Ascii.
Import String.StringSyntax.
Import ListNotations.
From XV Require Import Model.Dispatch Proofs.DispatchProofs Base.PyLib Proofs.PyMiscProofs Gen.PyDispatch Gen.PyDispatchEig.
Local Open Scope Z_scope.

Theorem solve_method_prelude_refines ad md (n : nat) ah mh m :
  solve_method_prelude ad md (Z.of_nat n) ah mh (meth_obj m) =
  Ok (meth_obj (lower_meth (with_default (solve_default ad md n (ah && mh)) m))).
Proof.
  unfold solve_method_prelude, solve_default.
  destruct m as [|s|i|]; cbn [meth_obj is_none is_str with_default lower_meth].
  - destruct (ad && md); [reflexivity|].
    replace (Z.of_nat n <=? 5) with (n <=? 5)%nat by (destruct (Nat.leb_spec n 5), (Z.leb_spec (Z.of_nat n) 5); lia || reflexivity).
    destruct (n <=? 5)%nat; [reflexivity|]. destruct (ah && mh); reflexivity.
  - cbn [obj_str bind]. rewrite str_lower_eq. reflexivity.
  - reflexivity.
  - reflexivity.
Qed.

Theorem symeig_method_prelude_refines ad md n ah mh m :
  symeig_method_prelude ad md n ah mh (meth_obj m) = Ok (meth_obj (lower_meth (with_default "exacteig"%string m))).
Proof.
  unfold symeig_method_prelude.
  destruct m as [|s|i|]; cbn [meth_obj is_none is_str with_default lower_meth].
  - destruct (ad && md); reflexivity.
  - cbn [obj_str bind]. rewrite str_lower_eq. reflexivity.
  - reflexivity.
  - reflexivity.
Qed.

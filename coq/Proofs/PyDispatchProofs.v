(* The code in front of the method dispatch of solve() and symeig() AS TRANSLATED FROM /repo ON THIS RUN (Gen/PyDispatch.v,
   Gen/PyDispatchEig.v; what the source asks about the operators - dense? small? Hermitian? - are inputs): it computes the default
   name and lower-cases names exactly as dispatch_solve / dispatch_symeig of Model/Dispatch.v assume (C18: case-insensitive names,
   no silent default, callables and other objects passed through untouched). *)
From Coq Require Import ZArith List Bool Lia.
From Coq Require String Ascii.
Import String.StringSyntax.
Import ListNotations.
From XV Require Import Model.Dispatch Proofs.DispatchProofs Base.PyLib Proofs.PyMiscProofs Gen.PyDispatch Gen.PyDispatchEig.
Local Open Scope Z_scope.

Theorem solve_method_prelude_refines ad md (n : nat) ah mh m :
  solve_method_prelude ad md (Z.of_nat n) ah mh (meth_obj m) =
  Ok (meth_obj (lower_meth (with_default (solve_default ad md n (ah && mh)) m))).
Proof.
  unfold solve_method_prelude, solve_default.
  destruct m as [|s|i|]; cbn [meth_obj is_none is_str with_default lower_meth].
  - destruct (ad && md); [reflexivity|].
    replace (Z.of_nat n <=? 5) with (n <=? 5)%nat by (destruct (Nat.leb_spec n 5), (Z.leb_spec (Z.of_nat n) 5); lia || reflexivity).
    destruct (n <=? 5)%nat; [reflexivity|]. destruct (ah && mh); reflexivity.
  - cbn [obj_str bind]. rewrite str_lower_eq. reflexivity.
  - reflexivity.
  - reflexivity.
Qed.

Theorem symeig_method_prelude_refines ad md n ah mh m :
  symeig_method_prelude ad md n ah mh (meth_obj m) = Ok (meth_obj (lower_meth (with_default "exacteig"%string m))).
Proof.
  unfold symeig_method_prelude.
  destruct m as [|s|i|]; cbn [meth_obj is_none is_str with_default lower_meth].
  - destruct (ad && md); reflexivity.
  - cbn [obj_str bind]. rewrite str_lower_eq. reflexivity.
  - reflexivity.
  - reflexivity.
Qed.

(* ---------- equilibrium() / minimize(): default, lower-casing and the choice of the algorithm family ---------- *)
From XV Require Import Gen.PyDispatchRF.

Lemma obj_in_tbl t m : obj_in_dict (tbl_obj t) (meth_obj m) = in_table m t.
Proof.
  destruct m as [|s|i|]; cbn [meth_obj obj_in_dict in_table]; try reflexivity.
  unfold d_mem, tmem. rewrite d_find_tbl. destruct (tlookup s t); reflexivity.
Qed.

(* the function handed to the method is the fixed-point map itself exactly when a fixed-point method runs, y - f(y) otherwise *)
Theorem equilibrium_method_prelude_refines t m pf nf :
  let m' := lower_meth (with_default "broyden1"%string m) in
  equilibrium_method_prelude (meth_obj m) pf nf (tbl_obj t) =
  Ok (meth_obj m', if in_table m' t then "equilibrium"%string else "rootfinder"%string, if in_table m' t then pf else nf).
Proof.
  cbn zeta. unfold equilibrium_method_prelude, equil_default_method, rf_default_method.
  destruct m as [|s|i|]; cbn [meth_obj is_none is_str with_default lower_meth bind obj_str].
  - change (OStr (str_lower "broyden1")) with (meth_obj (MStr "broyden1")). rewrite obj_in_tbl. reflexivity.
  - rewrite str_lower_eq. change (OStr (lower s)) with (meth_obj (MStr (lower s))). rewrite obj_in_tbl. reflexivity.
  - reflexivity.
  - reflexivity.
Qed.

Theorem minimize_method_prelude_refines t fo m :
  let m' := lower_meth (with_default "broyden1"%string m) in
  minimize_method_prelude (meth_obj m) fo (tbl_obj t) = Ok (meth_obj m', negb (in_table m' t)).
Proof.
  cbn zeta. unfold minimize_method_prelude, min_default_method.
  destruct m as [|s|i|]; cbn [meth_obj is_none bind]; unfold d_get; rewrite d_find_d_set_same; cbn [bind is_str obj_str with_default lower_meth].
  - change (OStr (str_lower "broyden1")) with (meth_obj (MStr "broyden1")). rewrite obj_in_tbl. reflexivity.
  - rewrite str_lower_eq. change (OStr (lower s)) with (meth_obj (MStr (lower s))). rewrite obj_in_tbl. reflexivity.
  - reflexivity.
  - reflexivity.
Qed.

From Coq Require Import List Bool Arith Lia.
Import ListNotations.
From XV Require Import Model.Separator.

(* all flag patterns of length <= 10; the payload of a parameter is its own position, so that any
   misplacement is visible *)
Fixpoint all_flags (n : nat) : list (list bool) :=
  match n with
  | O => [[]]
  | S k => flat_map (fun l => [true :: l; false :: l]) (all_flags k)
  end.
Definition tag (fl : list bool) : list (bool * nat) := combine fl (seq 0 (length fl)).
Definition pair_eqb (a b : option (bool * nat)) : bool :=
  match a, b with
  | Some (x, i), Some (y, j) => Bool.eqb x y && Nat.eqb i j
  | _, _ => false
  end.
Fixpoint list_eqb {X} (e : X -> X -> bool) (a b : list X) : bool :=
  match a, b with [], [] => true | x :: r, y :: s => e x y && list_eqb e r s | _, _ => false end.

Definition roundtrip_ok (fl : list bool) : bool :=
  let ps := tag fl in
  let ist := fun p : bool * nat => fst p in
  match reconstruct _ (length ps) (tensor_idxs _ ist ps) (nontensor_idxs _ ist ps)
                    (tensor_params _ ist ps) (nontensor_params _ ist ps) with
  | Some r => list_eqb pair_eqb r (map Some ps)
  | None => false
  end.

Definition partition_ok (fl : list bool) : bool :=
  let ps := tag fl in
  let ist := fun p : bool * nat => fst p in
  let t := tensor_idxs _ ist ps in let n := nontensor_idxs _ ist ps in
  Nat.eqb (length t + length n) (length ps) &&
  forallb (fun i => Bool.eqb (existsb (Nat.eqb i) t) (nth i fl false) &&
                    Bool.eqb (existsb (Nat.eqb i) n) (negb (nth i fl true))) (seq 0 (length ps)).

Definition all_upto (n : nat) : list (list bool) := flat_map all_flags (seq 0 (S n)).

(* reconstruct_params(tensor part, non-tensor part) is the original list, position by position, for
   EVERY pattern of tensor / non-tensor parameters of length <= 10 (2047 patterns, by computation) *)
Theorem separator_roundtrip_upto_10 :
  forall fl, In fl (all_upto 10) -> roundtrip_ok fl = true /\ partition_ok fl = true.
Proof.
  assert (H : forallb (fun fl => roundtrip_ok fl && partition_ok fl) (all_upto 10) = true) by (vm_compute; reflexivity).
  intros fl Hin. rewrite forallb_forall in H. specialize (H fl Hin). apply andb_prop in H. exact H.
Qed.

(* a wrong number of parameters is rejected *)
Theorem separator_rejects_length A n tidx nidx (ts ns : list A) :
  length ts + length ns <> n -> reconstruct A n tidx nidx ts ns = None.
Proof. intros H. unfold reconstruct. destruct (Nat.eqb_spec (length ts + length ns) n); [contradiction|reflexivity]. Qed.

(* Field identities behind Interp1D (linear / cubic Hermite pieces, spline rows) and SQuad (piece
   integrals), over any ordered field. *)
From mathcomp Require Import all_ssreflect all_algebra.
From mathcomp Require Import ring.
Set Implicit Arguments.
Unset Strict Implicit.
Unset Printing Implicit Defensive.
Import GRing.Theory Num.Theory.
Local Open Scope ring_scope.

Section Pieces.
Variable F : realFieldType.
Implicit Types (xl xr yl yr kl kr q t h : F).

(* ---- the two evaluation formulas of each method, as written in the source ---- *)
Definition lin_many xl xr yl yr q := (yr - yl) * ((q - xl) / (xr - xl)) + yl.
Definition lin_few xl xr yl yr q := yl + (yr - yl) * ((q - xl) / (xr - xl)).

Definition cub_many xl xr yl yr kl kr q :=
  let dy := yr - yl in let dx := xr - xl in
  let a := kl * dx - dy in let b := - kr * dx + dy in
  let p1 := dy + a in let p2 := b - 2%:R * a in let p3 := a - b in
  let t := (q - xl) / dx in
  ((p3 * t + p2) * t + p1) * t + yl.
Definition cub_few xl xr yl yr kl kr q :=
  let dx := xr - xl in
  let t := (q - xl) / dx in let tinv := 1 - t in
  let tta := t * tinv * tinv in let ttb := t * tinv * t in
  yl * (tinv + tta - ttb) + yr * (t - tta + ttb) + kl * (tta * dx) + kr * (- ttb * dx).

Theorem linear_formulas_agree xl xr yl yr q : lin_many xl xr yl yr q = lin_few xl xr yl yr q.
Proof. by rewrite /lin_many /lin_few; ring. Qed.

Theorem cubic_formulas_agree xl xr yl yr kl kr q : xr != xl ->
  cub_many xl xr yl yr kl kr q = cub_few xl xr yl yr kl kr q.
Proof.
move=> H; have H' : xr - xl != 0 by rewrite subr_eq0.
by rewrite /cub_many /cub_few; field.
Qed.

(* sample values are reproduced at the sample positions *)
Theorem linear_at_knots xl xr yl yr : xr != xl ->
  lin_few xl xr yl yr xl = yl /\ lin_few xl xr yl yr xr = yr.
Proof.
move=> H; have H' : xr - xl != 0 by rewrite subr_eq0.
by split; rewrite /lin_few; field.
Qed.

Theorem cubic_at_knots xl xr yl yr kl kr : xr != xl ->
  cub_few xl xr yl yr kl kr xl = yl /\ cub_few xl xr yl yr kl kr xr = yr.
Proof.
move=> H; have H' : xr - xl != 0 by rewrite subr_eq0.
by split; rewrite /cub_few; field.
Qed.

(* the cubic piece as a polynomial in the query: coefficients c0..c3 of (q - xl)^i *)
Definition cub_coefs xl xr yl yr kl kr : F * F * F * F :=
  let dy := yr - yl in let dx := xr - xl in
  let a := kl * dx - dy in let b := - kr * dx + dy in
  (yl, (dy + a) / dx, (b - 2%:R * a) / dx ^+ 2, (a - b) / dx ^+ 3).

Lemma cub_many_poly xl xr yl yr kl kr q : xr != xl ->
  let '(c0, c1, c2, c3) := cub_coefs xl xr yl yr kl kr in
  cub_many xl xr yl yr kl kr q = c0 + c1 * (q - xl) + c2 * (q - xl) ^+ 2 + c3 * (q - xl) ^+ 3.
Proof.
move=> H; have H' : xr - xl != 0 by rewrite subr_eq0.
by rewrite /cub_coefs /cub_many /=; field.
Qed.

(* first derivative of c0 + c1 s + c2 s^2 + c3 s^3 at s, second and third derivatives *)
Definition d1 (c : F * F * F * F) s := let '(_, c1, c2, c3) := c in c1 + 2%:R * c2 * s + 3%:R * c3 * s ^+ 2.
Definition d2 (c : F * F * F * F) s := let '(_, _, c2, c3) := c in 2%:R * c2 + 6%:R * c3 * s.
Definition d3 (c : F * F * F * F) := let '(_, _, _, c3) := c in 6%:R * c3.

(* the slopes at the two knots are kl and kr: the spline is C1 whatever ks is *)
Theorem hermite_slopes xl xr yl yr kl kr : xr != xl ->
  d1 (cub_coefs xl xr yl yr kl kr) 0 = kl /\ d1 (cub_coefs xl xr yl yr kl kr) (xr - xl) = kr.
Proof.
move=> H; have H' : xr - xl != 0 by rewrite subr_eq0.
by split; rewrite /d1 /cub_coefs /=; field.
Qed.

(* ---- rows of the spline system <-> smoothness conditions ---- *)
Section Rows.
Variables (x0 x1 x2 y0 y1 y2 k0 k1 k2 : F).
Hypotheses (h0 : x1 != x0) (h1 : x2 != x1).
Let i0 := (x1 - x0)^-1.
Let i1 := (x2 - x1)^-1.

(* interior row of spline_mat * k = matr * y, with the code's diag / offdiag / diagr / udiagr / ldiagr *)
Definition interior_row : F :=
  (i0 * k0 + (i0 + i1) * 2%:R * k1 + i1 * k2)
  - (- (i0 * i0 * 3%:R) * y0 + (i0 * i0 * 3%:R - i1 * i1 * 3%:R) * y1 + i1 * i1 * 3%:R * y2).

Theorem interior_row_iff_C2 :
  d2 (cub_coefs x1 x2 y1 y2 k1 k2) 0 - d2 (cub_coefs x0 x1 y0 y1 k0 k1) (x1 - x0) = - 2%:R * interior_row.
Proof.
have H0 : x1 - x0 != 0 by rewrite subr_eq0.
have H1 : x2 - x1 != 0 by rewrite subr_eq0.
by rewrite /d2 /cub_coefs /interior_row /i0 /i1 /=; field; rewrite ?H0 ?H1.
Qed.

Corollary interior_row_C2 :
  interior_row = 0 <->
  d2 (cub_coefs x0 x1 y0 y1 k0 k1) (x1 - x0) = d2 (cub_coefs x1 x2 y1 y2 k1 k2) 0.
Proof.
split=> [H|H].
  by apply/eqP; rewrite eq_sym -subr_eq0 interior_row_iff_C2 H mulr0.
have : - 2%:R * interior_row = 0 by rewrite -interior_row_iff_C2 H subrr.
by move/eqP; rewrite mulf_eq0 oppr_eq0 pnatr_eq0 /= => /eqP.
Qed.

(* natural boundary (first row): 2/h0 k0 + 1/h0 k1 = -3/h0^2 y0 + 3/h0^2 y1  <->  S''(x0) = 0 *)
Definition natural_row_first : F :=
  ((0 + i0) * 2%:R * k0 + i0 * k1) - ((0 - i0 * i0 * 3%:R) * y0 + i0 * i0 * 3%:R * y1).
Theorem natural_first_row : d2 (cub_coefs x0 x1 y0 y1 k0 k1) 0 = - 2%:R * natural_row_first.
Proof.
have H0 : x1 - x0 != 0 by rewrite subr_eq0.
by rewrite /d2 /cub_coefs /natural_row_first /i0 /=; field.
Qed.

(* natural boundary (last row, written for the last piece [x1, x2]) <-> S''(x2) = 0 *)
Definition natural_row_last : F :=
  (i1 * k1 + (i1 + 0) * 2%:R * k2) - (- (i1 * i1 * 3%:R) * y1 + (i1 * i1 * 3%:R - 0) * y2).
Theorem natural_last_row : d2 (cub_coefs x1 x2 y1 y2 k1 k2) (x2 - x1) = 2%:R * natural_row_last.
Proof.
have H1 : x2 - x1 != 0 by rewrite subr_eq0.
by rewrite /d2 /cub_coefs /natural_row_last /i1 /=; field.
Qed.

(* not-a-knot (first row): i0^2 k0 + (i0^2 - i1^2) k1 - i1^2 k2 = 2(-i0^3 y0 + (i0^3 + i1^3) y1 - i1^3 y2)
   <-> the third derivatives of the first two pieces agree *)
Definition notaknot_row_first : F :=
  (i0 * i0 * k0 + (i0 * i0 - i1 * i1) * k1 + - (i1 * i1) * k2)
  - (2%:R * - (i0 * (i0 * i0)) * y0 + 2%:R * (i0 * (i0 * i0) + i1 * (i1 * i1)) * y1 + 2%:R * - (i1 * (i1 * i1)) * y2).
Theorem notaknot_first_row :
  d3 (cub_coefs x0 x1 y0 y1 k0 k1) - d3 (cub_coefs x1 x2 y1 y2 k1 k2) = 6%:R * notaknot_row_first.
Proof.
have H0 : x1 - x0 != 0 by rewrite subr_eq0.
have H1 : x2 - x1 != 0 by rewrite subr_eq0.
by rewrite /d3 /cub_coefs /notaknot_row_first /i0 /i1 /=; field; rewrite ?H0 ?H1.
Qed.
End Rows.

(* periodic boundary: with y equal at the two ends, the first row states S''(x_first) = S''(x_last)
   (slopes being equal is the last row: k_0 = k_{n-1} after elimination); written for first piece
   [x0,x1] and last piece [xm,xn] *)
Theorem periodic_first_row x0 x1 xm xn y0 y1 ym yn k0 k1 km : x1 != x0 -> xn != xm -> yn = y0 ->
  let i0 := (x1 - x0)^-1 in let il := (xn - xm)^-1 in
  let row := (((0 + i0) * 2%:R + il * 2%:R) * k0 + i0 * k1 + il * km)
             - (((0 - i0 * i0 * 3%:R) + 3%:R * il * il) * y0 + i0 * i0 * 3%:R * y1 + (- (3%:R * il * il)) * ym) in
  d2 (cub_coefs x0 x1 y0 y1 k0 k1) 0 - d2 (cub_coefs xm xn ym yn km k0) (xn - xm) = - 2%:R * row.
Proof.
move=> h0 hl ->; have H0 : x1 - x0 != 0 by rewrite subr_eq0.
have Hl : xn - xm != 0 by rewrite subr_eq0.
by rewrite /d2 /cub_coefs /=; field; rewrite ?H0 ?Hl.
Qed.

(* ---- piece integrals used by SQuad ---- *)
(* antiderivative of c0 + c1 s + c2 s^2 + c3 s^3 from 0 to h *)
Definition integ (c : F * F * F * F) h :=
  let '(c0, c1, c2, c3) := c in c0 * h + c1 * h ^+ 2 / 2%:R + c2 * h ^+ 3 / 3%:R + c3 * h ^+ 4 / 4%:R.

Theorem trapz_piece xl xr yl yr : xr != xl ->
  integ (yl, (yr - yl) / (xr - xl), 0, 0) (xr - xl) = (yl + yr) * ((xr - xl) * 2%:R^-1).
Proof.
move=> H; have H' : xr - xl != 0 by rewrite subr_eq0.
by rewrite /integ; field.
Qed.

Theorem cspline_piece xl xr yl yr kl kr : xr != xl ->
  integ (cub_coefs xl xr yl yr kl kr) (xr - xl) =
  (yl + yr) * ((xr - xl) * 2%:R^-1) + (kl - kr) * ((xr - xl) * (xr - xl) / 12%:R).
Proof.
move=> H; have H' : xr - xl != 0 by rewrite subr_eq0.
by rewrite /integ /cub_coefs /=; field.
Qed.

(* Simpson on irregular spacing: nodes 0, h0, h0+h1; the three weights integrate 1, s, s^2 exactly over
   [0, h0+h1], i.e. they integrate the parabola through the three samples *)
Theorem simpson_even_exact (h0 h1 : F) : h0 != 0 -> h1 != 0 -> h1 + h0 != 0 ->
  let alpha : F := (2%:R * (h1 * h1 * h1) - h0 * h0 * h0 + 3%:R * h0 * (h1 * h1)) / (6%:R * h1 * (h1 + h0)) in
  let eta : F := (2%:R * (h0 * h0 * h0) - h1 * h1 * h1 + 3%:R * h1 * (h0 * h0)) / (6%:R * h0 * (h1 + h0)) in
  let beta : F := (h1 * h1 * h1 + h0 * h0 * h0 + 3%:R * h1 * h0 * (h1 + h0)) / (6%:R * h1 * h0) in
  [/\ eta + beta + alpha = h0 + h1,
      beta * h0 + alpha * (h0 + h1) = (h0 + h1) ^+ 2 / 2%:R &
      beta * h0 ^+ 2 + alpha * (h0 + h1) ^+ 2 = (h0 + h1) ^+ 3 / 3%:R].
Proof. by move=> H0 H1 H2 /=; split; field; rewrite ?H0 ?H1 ?H2. Qed.

(* the odd-index correction integrates the same parabola over the last interval [h2, h2+h1']:
   nodes 0, hN2, hN2+hN1; weights (-eta_l, beta_l, alpha_l) *)
Theorem simpson_odd_exact (hN1 hN2 : F) : hN1 != 0 -> hN2 != 0 -> hN1 + hN2 != 0 ->
  let alpha_l : F := (2%:R * hN1 * hN1 + 3%:R * hN1 * hN2) / (6%:R * (hN1 + hN2)) in
  let eta_l : F := hN1 * hN1 * hN1 / (6%:R * hN2 * (hN1 + hN2)) in
  let beta_l : F := (hN1 * hN1 + 3%:R * hN1 * hN2) / (6%:R * hN2) in
  [/\ - eta_l + beta_l + alpha_l = hN1,
      beta_l * hN2 + alpha_l * (hN2 + hN1) = ((hN2 + hN1) ^+ 2 - hN2 ^+ 2) / 2%:R &
      beta_l * hN2 ^+ 2 + alpha_l * (hN2 + hN1) ^+ 2 = ((hN2 + hN1) ^+ 3 - hN2 ^+ 3) / 3%:R].
Proof. by move=> H0 H1 H2 /=; split; field; rewrite ?H0 ?H1 ?H2. Qed.
End Pieces.

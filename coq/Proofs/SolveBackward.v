(* C02: the backward pass of solve is the adjoint of the tangent of A X - M X E = B. *)
From mathcomp Require Import all_ssreflect all_algebra.
From XV Require Import Base.Deriv Base.MxDeriv.
Set Implicit Arguments.
Unset Strict Implicit.
Unset Printing Implicit Defensive.
Import GRing.Theory.
Local Open Scope ring_scope.

Section SolveBackward.
Variable R : comRingType.
Variable D : derivation R.
Variables n c : nat.
Variables (A M : 'M[R]_n) (X B : 'M[R]_(n, c)) (E : 'M[R]_c).
Local Notation d := (dmx D).

(* tangent equation: differentiate the defining equation with any derivation *)
Theorem solve_tangent : A *m X - M *m X *m E = B ->
  A *m d X - M *m d X *m E = d B - d A *m X + d M *m X *m E + M *m X *m d E.
Proof.
move=> H; have := congr1 (@dmx _ D _ _) H.
rewrite dmxB !dmxM mulmxDl => H'.
set a := d A *m X in H' *; set b := A *m d X in H' *; set c' := d M *m X *m E in H' *.
set e := M *m d X *m E in H' *; set f := M *m X *m d E in H' *.
rewrite -H' [a + b]addrC (addrAC (b + a)) addrK !opprD !addrA.
by rewrite (addrAC _ (- f) c') (addrAC _ (- e) c') subrK subrK.
Qed.

(* the code: V solves the transposed system with right-hand side G (E diagonal, hence symmetric);
   the pulled-back cotangents are
     grad_B = V,  A-part: -tr(V^T dA X),  M-part: tr(V^T dM X E),  E-part: tr(V^T M X dE).
   For EVERY tangent (dX, dA, dM, dB, dE) of the defining equation they add up to <G, dX>. *)
Theorem solve_backward_adjoint (G V : 'M[R]_(n, c)) :
  A *m X - M *m X *m E = B -> E^T = E ->
  A^T *m V - M^T *m V *m E = G ->
  \tr (G^T *m d X) =
  \tr (V^T *m d B) - \tr (V^T *m (d A *m X)) + \tr (V^T *m (d M *m X *m E)) + \tr (V^T *m (M *m X *m d E)).
Proof.
move=> Heq HE HV.
have T := solve_tangent Heq.
have -> : \tr (G^T *m d X) = \tr (V^T *m (A *m d X - M *m d X *m E)).
  rewrite -HV linearB /= !trmx_mul !trmxK HE mulmxBl mulmxBr !linearB /=.
  congr (_ - _); first by rewrite mulmxA.
  by rewrite -!mulmxA mxtrace_mulC -!mulmxA.
by rewrite T !mulmxDr mulmxN !linearD /= linearN.
Qed.

(* inputs that do not influence the solution get a zero cotangent contribution *)
Theorem unused_inputs_zero (G V : 'M[R]_(n, c)) :
  d A = 0 -> d M = 0 -> d B = 0 -> d E = 0 ->
  A *m X - M *m X *m E = B -> E^T = E -> A^T *m V - M^T *m V *m E = G ->
  \tr (G^T *m d X) = 0.
Proof.
move=> HA HM HB HE' Heq HE HV; rewrite (solve_backward_adjoint Heq HE HV) HA HM HB HE'.
by rewrite !(mul0mx, mulmx0, mxtrace0, subr0, addr0).
Qed.
End SolveBackward.

(* special cases the code branches on: M absent is M = 1, E absent is E = 0 *)
Section Special.
Variable R : comRingType.
Variable D : derivation R.
Variables n c : nat.
Local Notation d := (dmx D).

Theorem solve_backward_no_E (A : 'M[R]_n) (X B G V : 'M[R]_(n, c)) :
  A *m X = B -> A^T *m V = G ->
  \tr (G^T *m d X) = \tr (V^T *m d B) - \tr (V^T *m (d A *m X)).
Proof.
move=> Heq HV.
have H1 : A *m X - 1%:M *m X *m (0 : 'M[R]_c) = B by rewrite mulmx0 subr0.
have H2 : A^T *m V - (1%:M : 'M[R]_n)^T *m V *m (0 : 'M[R]_c) = G by rewrite mulmx0 subr0.
rewrite (solve_backward_adjoint D H1 (trmx0 _ _ _) H2).
by rewrite dmx0 !(mulmx0, mxtrace0, addr0).
Qed.
End Special.

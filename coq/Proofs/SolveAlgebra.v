(* Algebra of solve(): Krylov step invariants, normal equations, adjoint of the shifted operator,
   Cholesky reduction of the generalised shift, per-column structure. MathComp, any size. *)
From mathcomp Require Import all_ssreflect all_algebra.
Set Implicit Arguments.
Unset Strict Implicit.
Unset Printing Implicit Defensive.
Import GRing.Theory.
Local Open Scope ring_scope.

Section Steps.
Variable F : fieldType.
Variable n : nat.
Implicit Types (A : 'M[F]_n) (b x r p s t v y h : 'cV[F]_n) (al om : F).

(* CG: if r = b - A x then after x' = x + al p, r' = r - al A p we still have r' = b - A x' *)
Theorem cg_step_residual A b x r p al : r = b - A *m x ->
  r - al *: (A *m p) = b - A *m (x + al *: p).
Proof. move=> ->; rewrite mulmxDr -scalemxAr opprD addrA. reflexivity. Qed.

(* BiCGSTAB: v = A y, h = x + al y, s = r - al v, t = A s, x' = h + om s, r' = s - om t *)
Theorem bicgstab_step_residual A b x r y al om : r = b - A *m x ->
  let v := A *m y in let h := x + al *: y in let s := r - al *: v in let t := A *m s in
  s - om *: t = b - A *m (h + om *: s).
Proof.
move=> -> /=; set s := b - A *m x - al *: (A *m y).
by rewrite [in RHS]mulmxDr [in RHS]mulmxDr -!scalemxAr !opprD !addrA.
Qed.

(* recomputing the residual (resid_calc_every) gives the same vector in exact arithmetic: both
   branches of the `if` in the loops coincide *)
Corollary cg_branches_agree A b x r p al : r = b - A *m x ->
  r - al *: (A *m p) = b - A *m (x + al *: p).
Proof. exact: cg_step_residual. Qed.
End Steps.

Section Normal.
Variable F : fieldType.
Variable cj : {rmorphism F -> F}.
Hypothesis cjK : involutive cj.
Variable n : nat.
Implicit Types (A M : 'M[F]_n).

Definition adjm m (A : 'M[F]_(m, n)) : 'M[F]_(n, m) := map_mx cj A^T.
Local Notation "A ^H" := (map_mx cj A^T) (at level 2, format "A ^H").

(* the fallback for non-positive-definite problems: solving A^H A x = A^H b solves A x = b *)
Theorem normal_equations_sound A c (b x : 'M[F]_(n, c)) : A \in unitmx ->
  A^H *m (A *m x) = A^H *m b -> A *m x = b.
Proof.
move=> uA H; have uAH : A^H \in unitmx by rewrite map_unitmx unitmx_tr.
by rewrite -(mulKmx uAH (A *m x)) H mulKmx.
Qed.

(* the adjoint of x |-> A x - e M x is y |-> A^H y - conj(e) M^H y  (AT_fcn after fix F13) *)
Theorem shifted_adjoint A M (e : F) :
  (A - e *: M)^H = A^H - cj e *: M^H.
Proof. by rewrite linearB /= map_mxB linearZ /= map_mxZ. Qed.
End Normal.

Section Cholesky.
Variable F : fieldType.
Variable cj : {rmorphism F -> F}.
Variable n : nat.
Local Notation "A ^H" := (map_mx cj A^T) (at level 2, format "A ^H").

(* exactsolve with M: L L^H = M, Linv L = 1, A2 = Linv A Linv^H, B2 = Linv b; if (A2 - e 1) x2 = b2
   then x = Linv^H x2 solves A x - e M x = b.  Column by column (e is the column's shift). *)
Theorem exactsolve_M_sound (A M L Linv : 'M[F]_n) (e : F) (b x2 : 'cV[F]_n) :
  L *m L^H = M -> Linv *m L = 1%:M -> L *m Linv = 1%:M ->
  (Linv *m (A *m Linv^H)) *m x2 - e *: x2 = Linv *m b ->
  let x := Linv^H *m x2 in A *m x - e *: (M *m x) = b.
Proof.
move=> HM HL HR H /=.
have HLH : L^H *m Linv^H = 1%:M.
  by rewrite -map_mxM -trmx_mul HL trmx1 map_mx1.
have -> : M *m (Linv^H *m x2) = L *m x2.
  by rewrite -HM -mulmxA (mulmxA L^H) HLH mul1mx.
have E : L *m (Linv *m b) = b by rewrite mulmxA HR mul1mx.
rewrite -E -H mulmxBr -scalemxAr; congr (_ - _).
by rewrite !mulmxA HR mul1mx.
Qed.

(* without M: _solve_ABE solves (A - e I) x = b per column *)
Theorem solve_ABE_sound (A : 'M[F]_n) (e : F) (b x : 'cV[F]_n) :
  (A - e%:M) *m x = b -> A *m x - e *: x = b.
Proof. by rewrite mulmxBl mul_scalar_mx. Qed.
End Cholesky.

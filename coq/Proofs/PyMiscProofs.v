(* The code of xitorch/_utils/misc.py AS TRANSLATED FROM /repo ON THIS RUN (Gen/PyMisc.v) refines the hand-written
   dispatch model (Model/Dispatch.v) on which the C18 theorems are stated, and has the documented behaviour of
   set_default_option / get_and_pop_keys / get_method directly.  A change of the source changes Gen/PyMisc.v and
   these proofs are re-checked against it. *)
From Coq Require Import ZArith List Bool Lia.
From Coq Require String Ascii.
Import String.StringSyntax.
Import ListNotations.
From XV Require Import Model.Dispatch Proofs.DispatchProofs Base.PyLib Gen.PyMisc.
Local Open Scope Z_scope.

(* ---------- str.lower: the two definitions agree ---------- *)
Lemma str_lower_eq s : str_lower s = Dispatch.lower s.
Proof. induction s as [|c r IH]; cbn; [reflexivity|]. rewrite IH. reflexivity. Qed.

(* ---------- embedding of the model's values ---------- *)
Definition meth_obj (m : meth) : obj :=
  match m with
  | MNone => ONone
  | MStr s => OStr s
  | MCall i => OCall (Z.of_nat i)
  | MOther => OTok 0
  end.
Definition tbl_obj (t : table) : list (string * obj) := map (fun kv => (fst kv, OStr (snd kv))) t.
(* what the caller of get_method observes *)
Definition outcome_res (o : outcome) : res obj :=
  match o with
  | Ran _ impl => Ok (OStr impl)
  | Custom _ i => Ok (OCall (Z.of_nat i))
  | ErrUnknown => Raise "RuntimeError"
  | ErrType => Raise "TypeError"
  | ErrAssert => Raise "AssertionError"
  | Direct n => Ok (OStr n)
  end.

Lemma d_find_tbl k t : d_find String.eqb (tbl_obj t) k = option_map OStr (tlookup k t).
Proof.
  induction t as [|[k' v] r IH]; cbn; [reflexivity|].
  destruct (String.eqb k k'); [reflexivity|exact IH].
Qed.

Theorem get_method_refines alg fam t m :
  get_method alg (tbl_obj t) (meth_obj m) = outcome_res (Dispatch.get_method fam t m).
Proof.
  destruct m as [|s|i|]; cbn; try reflexivity.
  unfold d_mem, d_get. rewrite str_lower_eq, d_find_tbl.
  destruct (tlookup (lower s) t); reflexivity.
Qed.

(* directly on the translated code: case-insensitive, unknown names raise, callables come back unchanged *)
Theorem gen_get_method_case_insensitive alg tbl s :
  get_method alg tbl (OStr s) = get_method alg tbl (OStr (str_lower s)).
Proof.
  cbn. rewrite !str_lower_eq, DispatchProofs.lower_idem. reflexivity.
Qed.

Theorem gen_get_method_unknown alg tbl s :
  d_find String.eqb tbl (str_lower s) = None -> get_method alg tbl (OStr s) = Raise "RuntimeError".
Proof. intros H. cbn. unfold d_mem. rewrite H. reflexivity. Qed.

Theorem gen_get_method_known alg tbl s v :
  d_find String.eqb tbl (str_lower s) = Some v -> get_method alg tbl (OStr s) = Ok v.
Proof. intros H. cbn. unfold d_mem, d_get. rewrite H. reflexivity. Qed.

Theorem gen_get_method_callable alg tbl i : get_method alg tbl (OCall i) = Ok (OCall i).
Proof. reflexivity. Qed.

Theorem gen_get_method_never_silent_default alg tbl m r :
  get_method alg tbl m = Ok r ->
  (exists s, m = OStr s /\ d_find String.eqb tbl (str_lower s) = Some r) \/ (exists i, m = OCall i /\ r = m).
Proof.
  destruct m as [|s|i|i rg|i]; cbn; try discriminate.
  - unfold d_mem, d_get. destruct (d_find String.eqb tbl (str_lower s)) as [v|] eqn:E; [|discriminate].
    intros H. injection H as <-. left. exists s. split; [reflexivity|exact E].
  - intros H. injection H as <-. right. exists i. split; reflexivity.
Qed.

(* ---------- option dictionaries ---------- *)
Definition vals_obj (f : nat -> obj) (o : opts) : list (string * obj) := map (fun kv => (fst kv, f (snd kv))) o.

Lemma d_set_vals f o k v : d_set String.eqb (vals_obj f o) k (f v) = vals_obj f (oset k v o).
Proof.
  induction o as [|[k' v'] r IH]; cbn; [reflexivity|].
  destruct (String.eqb k k'); cbn; [reflexivity|]. f_equal. exact IH.
Qed.

Theorem set_default_option_refines f defopt opt :
  set_default_option (vals_obj f defopt) (vals_obj f opt) = Ok (vals_obj f (Dispatch.set_default_option defopt opt)).
Proof.
  unfold set_default_option, Dispatch.set_default_option, d_update. f_equal.
  revert defopt. induction opt as [|[k v] r IH]; intros defopt; cbn; [reflexivity|].
  rewrite d_set_vals. apply IH.
Qed.

Lemma d_find_d_set_same {V} (d : list (string * V)) k v : d_find String.eqb (d_set String.eqb d k v) k = Some v.
Proof.
  induction d as [|[k' v'] r IH]; cbn; [rewrite String.eqb_refl; reflexivity|].
  destruct (String.eqb k k') eqn:E; cbn; [rewrite String.eqb_refl; reflexivity|rewrite E; exact IH].
Qed.

Lemma d_find_d_set_other {V} (d : list (string * V)) k k2 v :
  k <> k2 -> d_find String.eqb (d_set String.eqb d k2 v) k = d_find String.eqb d k.
Proof.
  intros Hn. induction d as [|[k' v'] r IH]; cbn.
  - destruct (String.eqb_spec k k2); [contradiction|reflexivity].
  - destruct (String.eqb_spec k2 k') as [->|Hn2]; cbn.
    + destruct (String.eqb_spec k k'); [contradiction|reflexivity].
    + destruct (String.eqb k k'); [reflexivity|exact IH].
Qed.

(* the caller's options win, the defaults fill in the rest: stated on the translated code, any value type *)
Theorem gen_set_default_option_spec opt : forall defopt k r,
  NoDup (map fst opt) ->
  set_default_option defopt opt = Ok r ->
  d_find String.eqb r k = match d_find String.eqb opt k with Some v => Some v | None => d_find String.eqb defopt k end.
Proof.
  unfold set_default_option, d_update. intros defopt k r Hnd H. injection H as <-. revert defopt Hnd.
  induction opt as [|[k' v'] o IH]; intros defopt Hnd; cbn; [reflexivity|].
  inversion Hnd as [|? ? Hnotin Hnd']; subst.
  rewrite (IH _ Hnd'). destruct (String.eqb_spec k k') as [->|Hn].
  - assert (Hnone : d_find String.eqb o k' = None).
    { clear -Hnotin. induction o as [|[a b] o IH]; cbn; [reflexivity|].
      cbn in Hnotin. destruct (String.eqb_spec k' a) as [->|]; [tauto|apply IH; tauto]. }
    rewrite Hnone. apply d_find_d_set_same.
  - destruct (d_find String.eqb o k); [reflexivity|]. apply d_find_d_set_other. exact Hn.
Qed.

(* ---------- get_and_pop_keys ---------- *)
Lemma d_find_remove_same {V} (d : list (string * V)) k :
  NoDup (map fst d) -> d_find String.eqb (d_remove String.eqb d k) k = None.
Proof.
  induction d as [|[k' v'] r IH]; cbn; [reflexivity|]. intros Hnd. inversion Hnd as [|? ? Hnotin Hnd']; subst.
  destruct (String.eqb_spec k k') as [->|Hn]; cbn.
  - clear -Hnotin. induction r as [|[a b] r IH]; cbn; [reflexivity|].
    cbn in Hnotin. destruct (String.eqb_spec k' a) as [->|]; [tauto|apply IH; tauto].
  - destruct (String.eqb_spec k k'); [contradiction|]. apply IH. exact Hnd'.
Qed.

Lemma d_find_remove_other {V} (d : list (string * V)) k k2 :
  k <> k2 -> d_find String.eqb (d_remove String.eqb d k2) k = d_find String.eqb d k.
Proof.
  intros Hn. induction d as [|[k' v'] r IH]; cbn; [reflexivity|].
  destruct (String.eqb_spec k2 k') as [->|Hn2]; cbn.
  - destruct (String.eqb_spec k k'); [contradiction|reflexivity].
  - destruct (String.eqb k k'); [reflexivity|exact IH].
Qed.

Lemma d_remove_keys_incl {V} (d : list (string * V)) k x : In x (map fst (d_remove String.eqb d k)) -> In x (map fst d).
Proof.
  induction d as [|[k' v'] r IH]; cbn; [tauto|]. destruct (String.eqb k k'); cbn; [tauto|]. intros [H|H]; [tauto|right; apply IH; exact H].
Qed.

Lemma d_remove_nodup {V} (d : list (string * V)) k : NoDup (map fst d) -> NoDup (map fst (d_remove String.eqb d k)).
Proof.
  induction d as [|[k' v'] r IH]; cbn; [trivial|]. intros Hnd. inversion Hnd as [|? ? Hnotin Hnd']; subst.
  destruct (String.eqb k k'); cbn; [exact Hnd'|]. constructor; [|apply IH; exact Hnd'].
  intros Hin. apply Hnotin. eapply d_remove_keys_incl. exact Hin.
Qed.

(* the loop of get_and_pop_keys, generalised over the accumulator *)
Definition gpk_body (st : list (string * obj) * list (string * obj)) (k : string) :=
  let '(res_, dct_) := st in
  '(p1, dct_) <- d_pop String.eqb dct_ k ;;
  Ok (d_set String.eqb res_ k p1, dct_).

Lemma get_and_pop_keys_unfold dct keys :
  get_and_pop_keys dct keys = ('(r, d) <- for_each keys gpk_body ([], dct) ;; Ok (r, d)).
Proof. reflexivity. Qed.

Lemma gpk_loop keys : forall res0 dct res1 dct1,
  NoDup (map fst dct) ->
  for_each keys gpk_body (res0, dct) = Ok (res1, dct1) ->
  NoDup (map fst dct1) /\
  (forall k, In k keys -> d_find String.eqb dct1 k = None) /\
  (forall k, ~ In k keys -> d_find String.eqb dct1 k = d_find String.eqb dct k /\
                            d_find String.eqb res1 k = d_find String.eqb res0 k) /\
  (forall k, In k keys -> NoDup keys -> d_find String.eqb res1 k = d_find String.eqb dct k /\ d_find String.eqb dct k <> None).
Proof.
  induction keys as [|k0 ks IH]; intros res0 dct res1 dct1 Hnd H.
  - cbn in H. injection H as <- <-. split; [exact Hnd|]. split; [intros k []|]. split; [intros k _; split; reflexivity|intros k []].
  - cbn [for_each] in H. unfold gpk_body at 1 in H. unfold d_pop in H.
    destruct (d_find String.eqb dct k0) as [v0|] eqn:E0; [|discriminate].
    cbn [bind] in H.
    specialize (IH _ _ _ _ (d_remove_nodup dct k0 Hnd) H) as (Hnd1 & Hgone & Hother & Hres).
    split; [exact Hnd1|]. split; [|split].
    + intros k [<-|Hin]; [|apply Hgone; exact Hin].
      destruct (in_dec String.string_dec k0 ks) as [Hi|Hni]; [apply Hgone; exact Hi|].
      destruct (Hother k0 Hni) as [-> _]. apply d_find_remove_same. exact Hnd.
    + intros k Hnin. assert (Hne : k <> k0) by (intros ->; apply Hnin; left; reflexivity).
      assert (Hnin' : ~ In k ks) by (intros Hi; apply Hnin; right; exact Hi).
      destruct (Hother k Hnin') as [-> ->]. split; [apply d_find_remove_other; exact Hne|apply d_find_d_set_other; exact Hne].
    + intros k [<-|Hin] Hndk; inversion Hndk as [|? ? Hnotin Hndk']; subst.
      * destruct (Hother k0 Hnotin) as [_ ->]. rewrite d_find_d_set_same, E0. split; [reflexivity|discriminate].
      * assert (Hne : k <> k0) by (intros ->; contradiction).
        destruct (Hres k Hin Hndk') as [-> Hsome]. rewrite d_find_remove_other in * by exact Hne. split; [reflexivity|exact Hsome].
Qed.

(* get_and_pop_keys(dct, keys): the result holds exactly the requested entries and they are REMOVED from dct *)
Theorem gen_get_and_pop_keys_spec dct keys res1 dct1 :
  NoDup (map fst dct) -> NoDup keys ->
  get_and_pop_keys dct keys = Ok (res1, dct1) ->
  (forall k, In k keys -> d_find String.eqb res1 k = d_find String.eqb dct k /\ d_find String.eqb dct k <> None /\
                          d_find String.eqb dct1 k = None) /\
  (forall k, ~ In k keys -> d_find String.eqb res1 k = None /\ d_find String.eqb dct1 k = d_find String.eqb dct k).
Proof.
  intros Hnd Hk H. rewrite get_and_pop_keys_unfold in H.
  destruct (for_each keys gpk_body ([], dct)) as [[r d]|e] eqn:E; [|discriminate]. cbn in H. injection H as <- <-.
  destruct (gpk_loop _ _ _ _ _ Hnd E) as (_ & Hgone & Hother & Hres). split.
  - intros k Hin. destruct (Hres k Hin Hk) as [H1 H2]. repeat split; [exact H1|exact H2|apply Hgone; exact Hin].
  - intros k Hnin. destruct (Hother k Hnin) as [H1 H2]. split; [rewrite H2; reflexivity|exact H1].
Qed.

(* a requested key that is absent raises KeyError (never a silent default) *)
Theorem gen_get_and_pop_keys_missing dct k ks :
  d_find String.eqb dct k = None -> get_and_pop_keys dct (k :: ks) = Raise "KeyError".
Proof.
  intros H. rewrite get_and_pop_keys_unfold. cbn [for_each]. unfold gpk_body at 1, d_pop. rewrite H. reflexivity.
Qed.

From Coq Require Import List Bool Arith Lia.
Import ListNotations.
From XV Require Import Model.NNParams.

Lemma has_key_remove_other k k' l : k <> k' -> has_key k (remove_key k' l) = has_key k l.
Proof.
  intros Hn. induction l as [|[x v] r IH]; [reflexivity|]. cbn.
  destruct (Nat.eqb_spec k' x) as [->|Hx]; cbn.
  - destruct (Nat.eqb_spec k x); [contradiction|exact IH].
  - rewrite IH. reflexivity.
Qed.
Lemma has_key_remove_same k l : has_key k (remove_key k l) = false.
Proof.
  induction l as [|[x v] r IH]; [reflexivity|]. cbn.
  destruct (Nat.eqb_spec k x) as [->|Hx]; [exact IH|]. cbn.
  destruct (Nat.eqb_spec k x); [contradiction|exact IH].
Qed.
Lemma remove_key_notin k l : has_key k l = false -> remove_key k l = l.
Proof.
  induction l as [|[x v] r IH]; [reflexivity|]. cbn.
  destruct (Nat.eqb_spec k x); [discriminate|]. cbn. intros H. rewrite IH; auto.
Qed.
Lemma has_key_app k l l' : has_key k (l ++ l') = has_key k l || has_key k l'.
Proof. induction l as [|[x v] r IH]; [reflexivity|]. cbn. rewrite IH, orb_assoc. reflexivity. Qed.

(* phase 1: substituting plain tensors for the registered parameters [done ++ todo], in order,
   empties _parameters name by name *)
Lemma substitute_plain : forall (todo : list (nat * value)) (pl : list (nat * value)) (news : list value),
  NoDup (map fst todo) -> length news = length todo ->
  Forall (fun v => is_parameter v = false) news ->
  (forall k, In k (map fst todo) -> has_key k pl = false) ->
  params (set_all (mkM todo pl) (combine (map fst todo) news)) = [] /\
  (forall k, has_key k (plain (set_all (mkM todo pl) (combine (map fst todo) news))) =
             has_key k pl || existsb (Nat.eqb k) (map fst todo)).
Proof.
  induction todo as [|[k v] r IH]; intros pl news Hnd Hlen Hnp Hpl.
  - destruct news; [|discriminate]. cbn. split; [reflexivity|]. intros k. rewrite orb_false_r. reflexivity.
  - destruct news as [|nv news]; [discriminate|]. cbn [map fst combine set_all].
    inversion Hnd as [|? ? Hnotin Hnd']; subst. inversion Hnp as [|? ? Hnv Hnp']; subst.
    assert (Hk : has_key k r = false).
    { clear - Hnotin. induction r as [|[x w] r IH]; [reflexivity|]. cbn in *.
      destruct (Nat.eqb_spec k x); [subst; tauto|]. apply IH. tauto. }
    unfold del_attr. cbn [params plain has_key]. rewrite Nat.eqb_refl. cbn [orb remove_key].
    rewrite Nat.eqb_refl. rewrite (remove_key_notin k r Hk).
    unfold set_attr. rewrite Hnv. cbn [params plain]. rewrite Hk.
    assert (Hkpl : has_key k pl = false) by (apply Hpl; cbn; auto). rewrite Hkpl.
    specialize (IH (pl ++ [(k, nv)]) news Hnd' ltac:(cbn in Hlen; lia) Hnp').
    assert (Hpl' : forall k0, In k0 (map fst r) -> has_key k0 (pl ++ [(k, nv)]) = false).
    { intros k0 Hin. rewrite has_key_app. cbn. rewrite (Hpl k0) by (cbn; auto). cbn.
      destruct (Nat.eqb_spec k0 k); [subst; contradiction|reflexivity]. }
    destruct (IH Hpl') as [E1 E2]. split; [exact E1|].
    intros k0. rewrite E2, has_key_app. cbn. rewrite orb_false_r.
    destruct (Nat.eqb k0 k); rewrite ?orb_true_r, ?orb_false_r; cbn; rewrite ?orb_true_r; reflexivity.
Qed.

(* phase 2: putting the original Parameter objects back, in the original order, rebuilds
   _parameters exactly (same keys, same objects, same order) *)
Lemma restore_params : forall (orig : list (nat * value)) (acc : list (nat * value)) (pl : list (nat * value)),
  NoDup (map fst orig) -> Forall (fun kv => is_parameter (snd kv) = true) orig ->
  (forall k, In k (map fst orig) -> has_key k acc = false) ->
  params (set_all (mkM acc pl) orig) = acc ++ orig.
Proof.
  induction orig as [|[k v] r IH]; intros acc pl Hnd Hp Hacc.
  - cbn. rewrite app_nil_r. reflexivity.
  - cbn [set_all]. inversion Hnd as [|? ? Hnotin Hnd']; subst. inversion Hp as [|? ? Hv Hp']; subst.
    cbn [snd] in Hv. assert (Hk : has_key k acc = false) by (apply Hacc; cbn; auto).
    unfold del_attr. cbn [params plain]. rewrite Hk. unfold set_attr. rewrite Hv. cbn [params plain]. rewrite Hk.
    rewrite IH; [rewrite <- app_assoc; reflexivity|exact Hnd'|exact Hp'|].
    intros k0 Hin. rewrite has_key_app. rewrite (Hacc k0) by (cbn; auto). cbn.
    destruct (Nat.eqb_spec k0 k); [subst; contradiction|reflexivity].
Qed.

(* substitution by plain tensors followed by restoration of the original Parameters leaves the
   module's parameter registration exactly as it was *)
Theorem module_registration_preserved (orig : list (nat * value)) (pl : list (nat * value)) (news : list value) :
  NoDup (map fst orig) -> Forall (fun kv => is_parameter (snd kv) = true) orig ->
  length news = length orig -> Forall (fun v => is_parameter v = false) news ->
  (forall k, In k (map fst orig) -> has_key k pl = false) ->
  params (set_all (set_all (mkM orig pl) (combine (map fst orig) news)) orig) = orig.
Proof.
  intros Hnd Hp Hlen Hnp Hpl.
  destruct (substitute_plain orig pl news Hnd Hlen Hnp Hpl) as [E1 _].
  destruct (set_all (mkM orig pl) (combine (map fst orig) news)) as [ps pls] eqn:E. cbn [params] in E1. subst ps.
  rewrite restore_params; [reflexivity|exact Hnd|exact Hp|]. intros k _. reflexivity.
Qed.

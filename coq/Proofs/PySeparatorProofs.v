(* xitorch/_utils/misc.py:TensorNonTensorSeparator AS TRANSLATED FROM /repo ON THIS RUN (Gen/PyMisc.v):
   for EVERY parameter list (any length, any pattern of tensors / non-tensors) the constructor partitions the
   positions, and reconstruct_params puts the i-th tensor argument at the i-th tensor position and the j-th other
   argument at the j-th other position; in particular it is a left inverse of the split.  (Model/Separator.v has
   this for all patterns of length <= 10 by computation; here it is proved for all lists, about the translated code.)
   The backward passes of rootfinder / solve_ivp / quad / mcquad rely on it to hand gradients back in the caller's
   argument order (C04, C08, C13). *)
From Coq Require Import ZArith List Bool Lia.
From Coq Require String.
Import String.StringSyntax.
Import ListNotations.
From XV Require Import Base.PyLib Proofs.PyLibFacts Gen.PyMisc.
Local Open Scope Z_scope.

(* the test of the constructor: a tensor, and (when varonly) one that requires grad *)
Definition ist (varonly : bool) (p : obj) : bool :=
  match p with
  | OTensor _ r => (varonly && r) || negb varonly
  | _ => false
  end.

(* positions (from offset i) whose flag is b, and the elements there *)
Fixpoint idx_from (i : nat) (fl : list bool) (b : bool) : list nat :=
  match fl with
  | [] => []
  | x :: r => if Bool.eqb x b then i :: idx_from (S i) r b else idx_from (S i) r b
  end.
Fixpoint pick {A} (fl : list bool) (l : list A) (b : bool) : list A :=
  match fl, l with
  | x :: r, a :: l' => if Bool.eqb x b then a :: pick r l' b else pick r l' b
  | _, _ => []
  end.

(* ---------- the constructor ---------- *)
Definition sep_state := (list Z * list obj * list Z * list obj)%type.
Definition sep_body (varonly : bool) (st : sep_state) (it : Z * obj) : res sep_state :=
  let '(i_, p_) := it in
  let '(self_tensor_idxs_, self_tensor_params_, self_nontensor_idxs_, self_nontensor_params_) := st in
  t2 <- (if is_tensor p_ then (t1 <- (if varonly then obj_requires_grad p_ else Ok false) ;;
                               if t1 then Ok true else Ok (negb varonly)) else Ok false) ;;
  if t2 then Ok (self_tensor_idxs_ ++ [i_], self_tensor_params_ ++ [p_], self_nontensor_idxs_, self_nontensor_params_)
  else Ok (self_tensor_idxs_, self_tensor_params_, self_nontensor_idxs_ ++ [i_], self_nontensor_params_ ++ [p_]).

Lemma sep_body_step (varonly : bool) st i p :
  sep_body varonly st (i, p) =
  let '(ti, tp, ni, np) := st in
  if ist varonly p then Ok (ti ++ [i], tp ++ [p], ni, np) else Ok (ti, tp, ni ++ [i], np ++ [p]).
Proof.
  destruct st as [[[ti tp] ni] np]. unfold sep_body.
  destruct p as [| | |j r|]; try reflexivity. destruct varonly, r; reflexivity.
Qed.

Lemma sep_loop varonly params : forall i ti tp ni np,
  let fl := map (ist varonly) params in
  for_each (enum_from i params) (sep_body varonly) (ti, tp, ni, np) =
  Ok (ti ++ map Z.of_nat (idx_from i fl true), tp ++ pick fl params true,
      ni ++ map Z.of_nat (idx_from i fl false), np ++ pick fl params false).
Proof.
  induction params as [|p r IH]; intros i ti tp ni np; cbn zeta.
  - cbn. rewrite !app_nil_r. reflexivity.
  - rewrite enum_from_cons. cbn [for_each]. rewrite sep_body_step. cbn [map idx_from pick].
    destruct (ist varonly p); cbn [bind Bool.eqb].
    + rewrite IH. cbn zeta. cbn [map]. rewrite <- !app_assoc. reflexivity.
    + rewrite IH. cbn zeta. cbn [map]. rewrite <- !app_assoc. reflexivity.
Qed.

Theorem separator_init_spec params varonly :
  let fl := map (ist varonly) params in
  separator_init params varonly =
  Ok (map Z.of_nat (idx_from 0 fl true), pick fl params true, map Z.of_nat (idx_from 0 fl false), pick fl params false,
      py_len params, py_len (map Z.of_nat (idx_from 0 fl true)) =? py_len params).
Proof.
  cbn zeta. unfold separator_init. rewrite py_enumerate_enum.
  pose proof (sep_loop varonly params 0 [] [] [] []) as H. cbn zeta in H. cbn [app] in H.
  set (loop := for_each _ _ _).
  assert (Hl : loop = for_each (enum_from 0 params) (sep_body varonly) ([], [], [], [])) by reflexivity.
  rewrite Hl, H. reflexivity.
Qed.

(* ---------- reconstruct_params ---------- *)
(* walk flags and a base list together: positions whose flag is b take the next value *)
Fixpoint place {A} (fl : list bool) (b : bool) (vals base : list A) : list A :=
  match fl, base with
  | x :: r, y :: base' =>
      if Bool.eqb x b then match vals with v :: vals' => v :: place r b vals' base' | [] => y :: place r b [] base' end
      else y :: place r b vals base'
  | _, _ => base
  end.

Definition scatter_body (params_ : list obj) (it : Z * obj) : res (list obj) :=
  let '(idx_, p_) := it in params_ <- list_set params_ idx_ p_ ;; Ok params_.

Fixpoint count (fl : list bool) (b : bool) : nat :=
  match fl with [] => 0%nat | x :: r => ((if Bool.eqb x b then 1 else 0) + count r b)%nat end.

Lemma scatter_loop (b : bool) fl : forall pre vals base,
  length base = length fl -> length vals = count fl b ->
  for_each (py_zip2 (map Z.of_nat (idx_from (length pre) fl b)) vals) scatter_body (pre ++ base) =
  Ok (pre ++ place fl b vals base).
Proof.
  induction fl as [|x r IH]; intros pre vals base Hb Hv.
  - destruct base; [|discriminate]. reflexivity.
  - destruct base as [|y base]; [discriminate|]. cbn [length] in Hb. injection Hb as Hb.
    cbn [idx_from place count] in *. destruct (Bool.eqb x b).
    + destruct vals as [|v vals]; [discriminate|]. cbn [length] in Hv. injection Hv as Hv.
      cbn [map py_zip2 combine for_each]. unfold scatter_body at 1. rewrite list_set_mid. cbn [bind].
      replace (pre ++ v :: base) with ((pre ++ [v]) ++ base) by (rewrite <- app_assoc; reflexivity).
      specialize (IH (pre ++ [v]) vals base Hb Hv). rewrite app_length in IH. cbn [length] in IH.
      rewrite Nat.add_1_r in IH. unfold py_zip2 in *. rewrite IH. rewrite <- app_assoc. reflexivity.
    + replace (pre ++ y :: base) with ((pre ++ [y]) ++ base) by (rewrite <- app_assoc; reflexivity).
      specialize (IH (pre ++ [y]) vals base Hb Hv). rewrite app_length in IH. cbn [length] in IH.
      rewrite Nat.add_1_r in IH. rewrite IH. rewrite <- app_assoc. reflexivity.
Qed.

(* the result every caller wants: tensor arguments at the tensor positions, the others at the other positions *)
Fixpoint merge (fl : list bool) (ts ns : list obj) : list obj :=
  match fl with
  | [] => []
  | true :: r => match ts with t :: ts' => t :: merge r ts' ns | [] => ONone :: merge r [] ns end
  | false :: r => match ns with n :: ns' => n :: merge r ts ns' | [] => ONone :: merge r ts [] end
  end.

Lemma place_twice fl : forall ts ns,
  place fl true ts (place fl false ns (map (fun _ => ONone) fl)) = merge fl ts ns.
Proof.
  induction fl as [|x r IH]; intros ts ns; [reflexivity|].
  destruct x; cbn [map place merge Bool.eqb].
  - destruct ts as [|t ts]; rewrite IH; reflexivity.
  - destruct ns as [|n ns]; cbn [place Bool.eqb]; rewrite IH; reflexivity.
Qed.

Lemma nones_range n : map (fun _ : Z => ONone) (py_range (Z.of_nat n)) = map (fun _ : bool => ONone) (repeat true n).
Proof.
  unfold py_range. rewrite Nat2Z.id, map_map.
  assert (H : forall i, map (fun _ : nat => ONone) (seq i n) = map (fun _ : bool => ONone) (repeat true n)).
  { induction n as [|n IH]; intros i; [reflexivity|]. cbn. f_equal. apply IH. }
  apply H.
Qed.

Lemma nones_any (fl : list bool) : map (fun _ : bool => ONone) (repeat true (length fl)) = map (fun _ : bool => ONone) fl.
Proof. induction fl as [|x r IH]; [reflexivity|]. cbn. f_equal. exact IH. Qed.

Lemma count_total fl : (count fl true + count fl false = length fl)%nat.
Proof. induction fl as [|[|] r IH]; cbn; lia. Qed.

Lemma count_idx i fl b : length (idx_from i fl b) = count fl b.
Proof. revert i. induction fl as [|x r IH]; intros i; [reflexivity|]. cbn. destruct (Bool.eqb x b); cbn; rewrite IH; reflexivity. Qed.

Lemma merge_all_true fl ts : count fl false = 0%nat -> length ts = length fl -> merge fl ts [] = ts.
Proof.
  revert ts. induction fl as [|[|] r IH]; intros ts Hc Hl.
  - destruct ts; [reflexivity|discriminate].
  - destruct ts as [|t ts]; [discriminate|]. cbn in *. f_equal. apply IH; [exact Hc|lia].
  - cbn in Hc. discriminate.
Qed.

Section Reconstruct.
  Variables (params : list obj) (varonly : bool).
  Let fl := map (ist varonly) params.
  Let ti := map Z.of_nat (idx_from 0 fl true).
  Let ni := map Z.of_nat (idx_from 0 fl false).
  Let tp := pick fl params true.
  Let np := pick fl params false.
  Let n := py_len params.
  Let allt := py_len ti =? n.

  (* with both argument lists of the right lengths: the merge *)
  Theorem separator_reconstruct_spec ts ns :
    length ts = count fl true -> length ns = count fl false ->
    separator_reconstruct ti tp ni np n allt ts (Some ns) = Ok (merge fl ts ns).
  Proof.
    intros Ht Hn. unfold separator_reconstruct.
    assert (Hlen : py_len ts + py_len ns = n).
    { unfold py_len, n. rewrite Ht, Hn, <- Nat2Z.inj_add, count_total. unfold fl. rewrite map_length. reflexivity. }
    rewrite Hlen, Z.eqb_refl. cbn [negb].
    destruct allt eqn:Eall.
    - (* every parameter is a tensor: the argument list itself *)
      unfold allt, ti, n, py_len in Eall. rewrite map_length, count_idx in Eall. apply Z.eqb_eq in Eall.
      apply Nat2Z.inj in Eall.
      assert (Hf : count fl false = 0%nat) by (pose proof (count_total fl) as Hc; unfold fl in *; rewrite map_length in *; lia).
      rewrite Hf in Hn. destruct ns; [|discriminate]. f_equal. symmetry. apply merge_all_true; [exact Hf|].
      rewrite Ht, Eall. unfold fl. rewrite map_length. reflexivity.
    - unfold n, py_len. rewrite nones_range.
      replace (length params) with (length fl) by (unfold fl; apply map_length). rewrite nones_any.
      pose proof (scatter_loop false fl [] ns (map (fun _ => ONone) fl)) as H1.
      cbn [length app] in H1. rewrite map_length in H1. specialize (H1 eq_refl Hn).
      set (l1 := for_each (py_zip2 ni ns) _ _).
      assert (E1 : l1 = Ok (place fl false ns (map (fun _ => ONone) fl))) by (etransitivity; [|exact H1]; reflexivity).
      rewrite E1. cbn [bind].
      pose proof (scatter_loop true fl [] ts (place fl false ns (map (fun _ => ONone) fl))) as H2.
      cbn [length app] in H2.
      assert (Hpl : forall (A : Type) f b (v base : list A), length base = length f -> length (place f b v base) = length f).
      { intros A f. induction f as [|x r IH]; intros b v base Hb; destruct base as [|y base]; try discriminate; [reflexivity|].
        cbn [place]. cbn [length] in Hb. injection Hb as Hb. destruct (Bool.eqb x b); [destruct v|]; cbn [length]; rewrite IH; auto. }
      specialize (H2 (Hpl _ fl false ns _ (map_length _ _)) Ht).
      set (l2 := for_each (py_zip2 ti ts) _ _).
      assert (E2 : l2 = Ok (place fl true ts (place fl false ns (map (fun _ => ONone) fl)))) by (etransitivity; [|exact H2]; reflexivity).
      rewrite E2. cbn [bind]. rewrite place_twice. reflexivity.
  Qed.

  (* a wrong total number of arguments is rejected *)
  Theorem separator_reconstruct_rejects ts ns :
    (length ts + length ns <> length params)%nat ->
    separator_reconstruct ti tp ni np n allt ts (Some ns) = Raise "ValueError".
  Proof.
    intros H. unfold separator_reconstruct.
    destruct (Z.eqb_spec (py_len ts + py_len ns) n) as [E|_]; [|reflexivity].
    exfalso. unfold n, py_len in E. lia.
  Qed.
End Reconstruct.

Lemma merge_pick fl : forall params : list obj, length params = length fl ->
  merge fl (pick fl params true) (pick fl params false) = params.
Proof.
  induction fl as [|[|] r IH]; intros [|p params] H; try discriminate; [reflexivity| |];
    cbn [merge pick Bool.eqb]; f_equal; apply IH; cbn in H; lia.
Qed.

Lemma pick_length {A} fl : forall (l : list A) b, length l = length fl -> length (pick fl l b) = count fl b.
Proof.
  induction fl as [|x r IH]; intros [|a l] b H; try discriminate; [reflexivity|].
  cbn [pick count]. cbn in H. destruct (Bool.eqb x b); cbn [length]; rewrite IH by lia; reflexivity.
Qed.

(* the split followed by reconstruct_params is the identity, for EVERY parameter list *)
Theorem separator_roundtrip params varonly :
  (fs <- separator_init params varonly ;;
   let '(ti, tp, ni, np, n, allt) := fs in separator_reconstruct ti tp ni np n allt tp (Some np)) = Ok params.
Proof.
  rewrite separator_init_spec. cbn [bind].
  rewrite separator_reconstruct_spec.
  - f_equal. apply merge_pick. rewrite map_length. reflexivity.
  - apply pick_length. rewrite map_length. reflexivity.
  - apply pick_length. rewrite map_length. reflexivity.
Qed.

(* ... also when the non-tensor arguments are left to their default *)
Theorem separator_roundtrip_default params varonly :
  (fs <- separator_init params varonly ;;
   let '(ti, tp, ni, np, n, allt) := fs in separator_reconstruct ti tp ni np n allt tp None) = Ok params.
Proof.
  pose proof (separator_roundtrip params varonly) as H.
  rewrite separator_init_spec in *. cbn [bind] in *. exact H.
Qed.

(* the statement used by Props/C04.v, C08.v (mathcomp files: the statement is named here, in stdlib scopes) *)
Definition translated_separator_statement : Prop :=
  (forall params varonly,
     (fs <- separator_init params varonly ;;
      let '(ti, tp, ni, np, n, allt) := fs in separator_reconstruct ti tp ni np n allt tp (Some np)) = Ok params) /\
  (forall params varonly,
     (fs <- separator_init params varonly ;;
      let '(ti, tp, ni, np, n, allt) := fs in separator_reconstruct ti tp ni np n allt tp None) = Ok params) /\
  (forall params varonly ts ns,
     let fl := map (ist varonly) params in
     length ts = count fl true -> length ns = count fl false ->
     (fs <- separator_init params varonly ;;
      let '(ti, tp, ni, np, n, allt) := fs in separator_reconstruct ti tp ni np n allt ts (Some ns)) = Ok (merge fl ts ns)) /\
  (forall params varonly ts ns, (length ts + length ns <> length params)%nat ->
     (fs <- separator_init params varonly ;;
      let '(ti, tp, ni, np, n, allt) := fs in separator_reconstruct ti tp ni np n allt ts (Some ns)) = Raise "ValueError").
Lemma translated_separator : translated_separator_statement.
Proof.
  split; [exact separator_roundtrip|]. split; [exact separator_roundtrip_default|]. split.
  - intros params varonly ts ns fl Ht Hn. rewrite separator_init_spec. cbn [bind]. apply separator_reconstruct_spec; assumption.
  - intros params varonly ts ns H. rewrite separator_init_spec. cbn [bind]. apply separator_reconstruct_rejects. exact H.
Qed.

From Coq Require Import List Bool Arith ZArith Lia.
Import ListNotations.
From XV Require Import Base.Ops Model.Krylov.

Section Facts.
  Context {T : Type} (o : ops T).
  Variable Afs : list (list T -> list T).
  Variable eps : T.

  Definition all_below (norms stops : list T) : bool :=
    forallb (fun p => oltb o (fst p) (snd p)) (combine norms stops).

  (* a silent return of cg: the carried residual norms of the RETURNED iterate are below the
     per-column thresholds, for every column (false before fix F15: best_xk was returned) *)
  Theorem cg_silent_meets_tol : forall fuel k every bs stops cols br bx,
    let out := cg_loop o Afs eps fuel k every bs stops cols br bx in
    co_warned out = false ->
    all_below (co_resid out) stops = true /\ co_iters out < k + fuel.
  Proof.
    induction fuel as [|n IH]; intros k every bs stops cols br bx; cbn [cg_loop]; cbn zeta.
    - cbn. discriminate.
    - match goal with |- context [if ?c then _ else _] => destruct c eqn:E end.
      + cbn. intros _. split; [exact E|lia].
      + intros H. destruct (IH _ _ _ _ _ _ _ H) as [I1 I2]. split; [exact I1|lia].
  Qed.

  Theorem bicgstab_silent_meets_tol : forall fuel k every bs stops cols br bx,
    let out := bc_loop o Afs eps fuel k every bs stops cols br bx in
    co_warned out = false ->
    all_below (co_resid out) stops = true /\ co_iters out < k + fuel.
  Proof.
    induction fuel as [|n IH]; intros k every bs stops cols br bx; cbn [bc_loop]; cbn zeta.
    - cbn. discriminate.
    - match goal with |- context [if ?c then _ else _] => destruct c eqn:E end.
      + cbn. intros _. split; [exact E|lia].
      + intros H. destruct (IH _ _ _ _ _ _ _ H) as [I1 I2]. split; [exact I1|lia].
  Qed.

  (* a warning is raised exactly when the budget is exhausted without the test ever passing *)
  Theorem cg_warn_iff_exhausted : forall fuel k every bs stops cols br bx,
    co_warned (cg_loop o Afs eps fuel k every bs stops cols br bx) = true ->
    co_iters (cg_loop o Afs eps fuel k every bs stops cols br bx) = pred (k + fuel).
  Proof.
    induction fuel as [|n IH]; intros k every bs stops cols br bx; cbn [cg_loop]; cbn zeta.
    - cbn. intros _. f_equal. lia.
    - match goal with |- context [if ?c then _ else _] => destruct c eqn:E end; [cbn; discriminate|].
      intros H. rewrite IH by exact H. f_equal. lia.
  Qed.
End Facts.

(* The de-duplication loops AS TRANSLATED FROM /repo ON THIS RUN -- xitorch/_core/packer.py:_get_unique_idxs
   (Gen/PyPackerIdx.v) and xitorch/_utils/unique.py:Uniquifier (Gen/PyUnique.v) -- compute exactly the
   first-occurrence de-duplication [uniq_go] of Model/Packer.v, on which the C20 / C09 / C10 theorems are stated. *)
From Coq Require Import ZArith List Bool Lia.
From Coq Require String.
Import String.StringSyntax.
Import ListNotations.
From XV Require Import Model.Packer Base.PyLib Proofs.PyLibFacts Gen.PyPackerIdx Gen.PyUnique.
Local Open Scope Z_scope.

(* ---------- the identities ---------- *)
Section Ids.
  Variable f : nat -> obj.
  Hypothesis f_inj : forall i j, obj_id (f i) = obj_id (f j) -> i = j.

  (* the dict of the implementation represents the association list of the model *)
  Definition repr (d : list (Z * Z)) (seen : list (nat * nat)) : Prop :=
    forall x, d_find Z.eqb d (obj_id (f x)) = option_map Z.of_nat (lookup x seen).

  Lemma repr_add d seen x n : repr d seen -> repr (d_set Z.eqb d (obj_id (f x)) (Z.of_nat n)) ((x, n) :: seen).
  Proof.
    intros H y. cbn [lookup]. destruct (Nat.eqb_spec y x) as [->|Hn].
    - rewrite zfind_set_same. reflexivity.
    - rewrite zfind_set_other; [apply H|]. intros E. apply Hn, f_inj, E.
  Qed.

  (* ===== packer._get_unique_idxs ===== *)
  Definition pk_body (st : list (Z * Z) * list Z * list Z) (it : Z * Z) : res (list (Z * Z) * list Z * list Z) :=
    let '(i_, idnum_) := it in
    let '(unique_ids_, unique_inverse_, unique_idxs_) := st in
    if d_mem Z.eqb unique_ids_ idnum_ then
      unique_inverse_ <- (t1 <- d_get Z.eqb unique_ids_ idnum_ ;; Ok (unique_inverse_ ++ [t1])) ;;
      Ok (unique_ids_, unique_inverse_, unique_idxs_)
    else
      let unique_ids_ := d_set Z.eqb unique_ids_ idnum_ (py_len unique_idxs_) in
      let unique_idxs_ := unique_idxs_ ++ [i_] in
      unique_inverse_ <- (t2 <- d_get Z.eqb unique_ids_ idnum_ ;; Ok (unique_inverse_ ++ [t2])) ;;
      Ok (unique_ids_, unique_inverse_, unique_idxs_).

  Lemma pk_loop ids : forall i d seen inv0 ui0,
    repr d seen ->
    exists d',
      for_each (enum_from i (map (fun x => obj_id (f x)) ids)) pk_body (d, inv0, ui0) =
      Ok (d', inv0 ++ map Z.of_nat (snd (uniq_go ids i seen (length ui0))),
              ui0 ++ map Z.of_nat (fst (uniq_go ids i seen (length ui0)))).
  Proof.
    induction ids as [|x r IH]; intros i d seen inv0 ui0 Hr.
    - exists d. cbn. rewrite !app_nil_r. reflexivity.
    - cbn [map]. rewrite enum_from_cons. cbn [for_each]. unfold pk_body at 1. unfold d_mem, d_get.
      rewrite (Hr x). cbn [uniq_go]. destruct (lookup x seen) as [s|] eqn:E; cbn [option_map bind].
      + destruct (IH (S i) d seen (inv0 ++ [Z.of_nat s]) ui0 Hr) as [d' Hd']. exists d'.
        etransitivity; [exact Hd'|]. destruct (uniq_go r (S i) seen (length ui0)) as [ui inv]. cbn [fst snd map].
        rewrite <- app_assoc. reflexivity.
      + rewrite zfind_set_same. cbn [bind].
        pose proof (repr_add d seen x (length ui0) Hr) as Hr'. unfold py_len.
        destruct (IH (S i) _ _ (inv0 ++ [Z.of_nat (length ui0)]) (ui0 ++ [Z.of_nat i]) Hr') as [d' Hd'].
        exists d'. etransitivity; [exact Hd'|]. rewrite app_length. cbn [length]. rewrite Nat.add_1_r.
        destruct (uniq_go r (S i) ((x, length ui0) :: seen) (S (length ui0))) as [ui inv]. cbn [fst snd map].
        rewrite <- !app_assoc. reflexivity.
  Qed.

  Theorem packer_get_unique_idxs_refines ids :
    packer_get_unique_idxs (map f ids) =
    Ok (map Z.of_nat (fst (uniq_go ids 0 [] 0)), map Z.of_nat (snd (uniq_go ids 0 [] 0))).
  Proof.
    unfold packer_get_unique_idxs. rewrite py_enumerate_enum, map_map.
    destruct (pk_loop ids 0 [] [] [] [] (fun x => eq_refl)) as [d' Hd'].
    cbn [length app] in Hd'.
    set (loop := for_each _ _ _).
    assert (Hl : loop = Ok (d', map Z.of_nat (snd (uniq_go ids 0 [] 0)), map Z.of_nat (fst (uniq_go ids 0 [] 0))))
      by (etransitivity; [|exact Hd']; reflexivity).
    rewrite Hl. reflexivity.
  Qed.
End Ids.

(* a concrete family of distinct objects: tensors with distinct identities *)
Definition tens_obj (i : nat) : obj := OTensor (Z.of_nat i) true.
Lemma tens_obj_inj i j : obj_id (tens_obj i) = obj_id (tens_obj j) -> i = j.
Proof. unfold tens_obj, obj_id. lia. Qed.

Corollary packer_get_unique_idxs_model (b : list tens) :
  packer_get_unique_idxs (map (fun t => tens_obj (tid t)) b) =
  Ok (map Z.of_nat (fst (get_unique_idxs b)), map Z.of_nat (snd (get_unique_idxs b))).
Proof.
  unfold get_unique_idxs. rewrite <- (map_map tid tens_obj).
  apply packer_get_unique_idxs_refines. exact tens_obj_inj.
Qed.

(* ===== unique.Uniquifier.__init__ ===== *)
(* the objects met for the first time, in order (the model's unique_objs) *)
Fixpoint uniq_new (ids : list nat) (seen : list (nat * nat)) (nuniq : nat) : list nat :=
  match ids with
  | [] => []
  | x :: r => match lookup x seen with
              | Some _ => uniq_new r seen nuniq
              | None => x :: uniq_new r ((x, nuniq) :: seen) (S nuniq)
              end
  end.

Section UIds.
  Variable f : nat -> obj.
  Hypothesis f_inj : forall i j, obj_id (f i) = obj_id (f j) -> i = j.

  Definition uq_state := (list Z * list (Z * Z) * list obj * list Z * Z)%type.
  Definition uq_body (st : uq_state) (it : Z * obj) : res uq_state :=
    let '(i_, obj_) := it in
    let '(nonunique_map_idxs_, id2idx_, unique_objs_, unique_idxs_, num_unique_) := st in
    let id_obj_ := obj_id obj_ in
    if d_mem Z.eqb id2idx_ id_obj_ then
      nonunique_map_idxs_ <- (t1 <- d_get Z.eqb id2idx_ id_obj_ ;; list_set nonunique_map_idxs_ i_ t1) ;;
      Ok (nonunique_map_idxs_, id2idx_, unique_objs_, unique_idxs_, num_unique_)
    else
      let id2idx_ := d_set Z.eqb id2idx_ id_obj_ num_unique_ in
      let unique_objs_ := unique_objs_ ++ [obj_] in
      nonunique_map_idxs_ <- list_set nonunique_map_idxs_ i_ num_unique_ ;;
      let unique_idxs_ := unique_idxs_ ++ [i_] in
      let num_unique_ := num_unique_ + 1 in
      Ok (nonunique_map_idxs_, id2idx_, unique_objs_, unique_idxs_, num_unique_).

  Lemma uq_loop ids : forall d seen (done_ : list Z) (fill : list Z) uo0 ui0,
    repr f d seen -> length fill = length ids ->
    exists d',
      for_each (enum_from (length done_) (map f ids)) uq_body (done_ ++ fill, d, uo0, ui0, Z.of_nat (length ui0)) =
      Ok (done_ ++ map Z.of_nat (snd (uniq_go ids (length done_) seen (length ui0))), d',
          uo0 ++ map f (uniq_new ids seen (length ui0)),
          ui0 ++ map Z.of_nat (fst (uniq_go ids (length done_) seen (length ui0))),
          Z.of_nat (length ui0 + length (fst (uniq_go ids (length done_) seen (length ui0))))).
  Proof.
    induction ids as [|x r IH]; intros d seen done_ fill uo0 ui0 Hr Hlen.
    - exists d. destruct fill; [|discriminate]. cbn. rewrite !app_nil_r, Nat.add_0_r. reflexivity.
    - destruct fill as [|y fill]; [discriminate|]. cbn [length] in Hlen. injection Hlen as Hlen.
      cbn [map]. rewrite enum_from_cons. cbn [for_each]. unfold uq_body at 1. unfold d_mem, d_get.
      cbn zeta. rewrite (Hr x). cbn [uniq_go uniq_new]. destruct (lookup x seen) as [s|] eqn:E; cbn [option_map bind].
      + rewrite list_set_mid. cbn [bind].
        assert (Hd : done_ ++ Z.of_nat s :: fill = (done_ ++ [Z.of_nat s]) ++ fill) by (rewrite <- app_assoc; reflexivity).
        rewrite Hd.
        destruct (IH d seen (done_ ++ [Z.of_nat s]) fill uo0 ui0 Hr Hlen) as [d' Hd'].
        rewrite app_length in Hd'. cbn [length] in Hd'. rewrite Nat.add_1_r in Hd'.
        exists d'. etransitivity; [exact Hd'|].
        destruct (uniq_go r (S (length done_)) seen (length ui0)) as [ui inv]. cbn [fst snd map].
        rewrite <- app_assoc. reflexivity.
      + rewrite list_set_mid. cbn [bind].
        assert (Hd : done_ ++ Z.of_nat (length ui0) :: fill = (done_ ++ [Z.of_nat (length ui0)]) ++ fill)
          by (rewrite <- app_assoc; reflexivity).
        rewrite Hd.
        pose proof (repr_add f f_inj d seen x (length ui0) Hr) as Hr'.
        destruct (IH _ _ (done_ ++ [Z.of_nat (length ui0)]) fill (uo0 ++ [f x]) (ui0 ++ [Z.of_nat (length done_)]) Hr' Hlen) as [d' Hd'].
        rewrite !app_length in Hd'. cbn [length] in Hd'. rewrite !Nat.add_1_r in Hd'.
        exists d'. replace (Z.of_nat (length ui0) + 1) with (Z.of_nat (S (length ui0))) by lia.
        etransitivity; [exact Hd'|].
        destruct (uniq_go r (S (length done_)) ((x, length ui0) :: seen) (S (length ui0))) as [ui inv]. cbn [fst snd map length].
        rewrite <- !app_assoc. cbn [app]. replace (S (length ui0) + length ui)%nat with (length ui0 + S (length ui))%nat by lia. reflexivity.
  Qed.

  Lemma py_repeat_single_length (v : Z) n : length (py_repeat [v] (Z.of_nat n)) = n.
  Proof. unfold py_repeat. rewrite Nat2Z.id. induction n as [|n IH]; cbn; [reflexivity|]. f_equal. exact IH. Qed.

  (* Uniquifier(allobjs): first-occurrence positions, the position -> unique slot map, the number of distinct objects *)
  Theorem uniquifier_init_refines ids :
    let ui := fst (uniq_go ids 0 [] 0) in
    let inv := snd (uniq_go ids 0 [] 0) in
    uniquifier_init (map f ids) =
    Ok (Z.of_nat (length ids), map f (uniq_new ids [] 0), map Z.of_nat ui, map Z.of_nat inv,
        Z.of_nat (length ui), Z.of_nat (length ids) =? Z.of_nat (length ui)).
  Proof.
    intros ui inv. unfold uniquifier_init. rewrite py_enumerate_enum. unfold py_len. rewrite map_length. cbn zeta.
    set (fill := py_repeat _ _).
    assert (Hfill : length fill = length ids) by apply py_repeat_single_length.
    destruct (uq_loop ids [] [] [] fill [] [] (fun x => eq_refl) Hfill) as [d' Hd'].
    cbn [length app Nat.add] in Hd'.
    set (loop := for_each _ _ _).
    assert (Hl : loop = Ok (map Z.of_nat inv, d', map f (uniq_new ids [] 0), map Z.of_nat ui, Z.of_nat (length ui)))
      by (etransitivity; [|exact Hd']; reflexivity).
    rewrite Hl. reflexivity.
  Qed.
End UIds.

(* the objects met for the first time ARE the model's unique_objs (the tensors at the first-occurrence positions) *)
From XV Require Import Model.PureFn Proofs.PackerProofs.

Lemma uniq_new_select l : forall i seen n,
  uniq_new l seen n = map (fun j => nth (j - i) l 0%nat) (fst (uniq_go l i seen n)).
Proof.
  induction l as [|x r IH]; intros i seen n; [reflexivity|]. cbn [uniq_new uniq_go].
  destruct (lookup x seen).
  - rewrite (IH (S i) seen n).
    pose proof (uniq_go_idx_range r (S i) seen n) as Hr. destruct (uniq_go r (S i) seen n) as [ui inv]. cbn [fst] in *.
    apply map_ext_in. intros j Hj. specialize (Hr j Hj). replace (j - i)%nat with (S (j - S i)) by lia. reflexivity.
  - rewrite (IH (S i) ((x, n) :: seen) (S n)).
    pose proof (uniq_go_idx_range r (S i) ((x, n) :: seen) (S n)) as Hr.
    destruct (uniq_go r (S i) ((x, n) :: seen) (S n)) as [ui inv]. cbn [fst map] in *.
    rewrite Nat.sub_diag. cbn [nth]. f_equal.
    apply map_ext_in. intros j Hj. specialize (Hr j Hj). replace (j - i)%nat with (S (j - S i)) by lia. reflexivity.
Qed.

Theorem uniq_new_is_unique_objs ids : uniq_new ids [] 0 = unique_objs ids.
Proof.
  unfold unique_objs, uniq_ids, select. rewrite (uniq_new_select ids 0 [] 0). apply map_ext. intros j. rewrite Nat.sub_0_r. reflexivity.
Qed.

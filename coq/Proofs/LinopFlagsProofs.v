From Coq Require Import List Bool Arith Lia.
Import ListNotations.
From XV Require Import Model.LinopFlags.

(* the cache only ever holds what the class itself defines *)
Definition cache_ok (tb : table) (st : state) : Prop :=
  length (cache st) = length tb /\
  forall c f, nth c (cache st) None = Some f -> f = spec_flags tb c.

Lemma init_ok tb : cache_ok tb (init_state tb).
Proof.
  split; [cbn; apply map_length|]. intros c f H. cbn in H.
  assert (E : nth c (map (fun _ : cls => @None flags) tb) None = None).
  { clear. revert c. induction tb; destruct c; cbn; auto. }
  rewrite E in H. discriminate.
Qed.

Lemma nth_set_nth_same {A} (l : list A) n x d : n < length l -> nth n (set_nth n x l) d = x.
Proof. revert n. induction l; intros [|n] H; cbn in *; try lia; auto. apply IHl. lia. Qed.
Lemma nth_set_nth_other {A} (l : list A) n m x d : n <> m -> nth m (set_nth n x l) d = nth m l d.
Proof. revert n m. induction l; intros [|n] [|m] H; cbn; auto; try lia. Qed.
Lemma set_nth_length {A} (l : list A) n x : length (set_nth n x l) = length l.
Proof. revert n. induction l; intros [|n]; cbn; auto. Qed.

Lemma set_nth_beyond {A} (l : list A) n x : length l <= n -> set_nth n x l = l.
Proof. revert n. induction l as [|y r IH]; intros [|n] H; cbn in *; auto; try lia. f_equal. apply IH. lia. Qed.

Lemma instantiate_ok tb t st : cache_ok tb st -> cache_ok tb (snd (instantiate tb t st)).
Proof.
  intros [Hl Hc]. destruct t as [c|]; cbn [instantiate snd].
  - split; [cbn; rewrite set_nth_length; exact Hl|].
    intros c' f H. cbn [cache] in H.
    destruct (Nat.eq_dec c c') as [<-|Hne].
    + destruct (Nat.lt_ge_cases c (length (cache st))) as [Hlt|Hge].
      * rewrite nth_set_nth_same in H by exact Hlt. inversion H; subst.
        destruct (nth c (cache st) None) as [g|] eqn:E; [apply Hc; exact E|reflexivity].
      * pose proof (set_nth_beyond (cache st) c (Some (match nth c (cache st) None with Some f0 => f0 | None => spec_flags tb c end)) Hge) as E.
        rewrite E in H. apply Hc. exact H.
    + rewrite nth_set_nth_other in H by exact Hne. apply Hc. exact H.
  - split; [exact Hl|exact Hc].
Qed.

(* what a single instantiation returns in a consistent state does not depend on the state *)
Definition spec_outcome (tb : table) (t : target) : outcome :=
  match t with
  | Base => ErrNoMv
  | User c => if hd false (spec_flags tb c) then Ok (spec_flags tb c) else ErrNoMv
  end.

Lemma instantiate_spec tb t st : cache_ok tb st -> fst (instantiate tb t st) = spec_outcome tb t.
Proof.
  intros [Hl Hc]. destruct t as [c|]; cbn [instantiate fst spec_outcome]; [|reflexivity].
  destruct (nth c (cache st) None) as [f|] eqn:E; [rewrite (Hc c f E)|]; reflexivity.
Qed.

(* THE property: for every class table and every instantiation history -- including failed
   instantiations and instantiations of base classes and of LinearOperator itself -- every
   instantiation observes exactly the flags its own class defines *)
Theorem flags_history_independent tb : forall h st, cache_ok tb st ->
  fst (run tb h st) = map (spec_outcome tb) h.
Proof.
  induction h as [|t r IH]; intros st Hok; [reflexivity|].
  cbn [run map]. pose proof (instantiate_spec tb t st Hok) as E1.
  pose proof (instantiate_ok tb t st Hok) as Hok'.
  destruct (instantiate tb t st) as [o st1]. cbn [fst snd] in *.
  specialize (IH st1 Hok'). destruct (run tb r st1) as [os st2]. cbn [fst] in *.
  rewrite E1, IH. reflexivity.
Qed.

Corollary flags_from_fresh tb h : fst (run tb h (init_state tb)) = map (spec_outcome tb) h.
Proof. apply flags_history_independent, init_ok. Qed.

(* resolves is what "defined by the class or one of its user ancestors" means *)
Lemma resolves_own f tb c k m : nth_error tb c = Some k -> existsb (meth_eqb m) (defs k) = true ->
  resolves (S f) tb c m = true.
Proof. intros H1 H2. cbn. rewrite H1, H2. reflexivity. Qed.

Lemma resolves_parent f tb c k p m : nth_error tb c = Some k -> parent k = Some p ->
  resolves f tb p m = true -> resolves (S f) tb c m = true.
Proof. intros H1 H2 H3. cbn. rewrite H1, H2, H3. apply orb_true_r. Qed.

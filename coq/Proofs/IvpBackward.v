(* C08: the segment loop of _SolveIVP.backward over LINEAR adjoint flows.
   Segment i (between the requested times t_i and t_{i+1}) pulls an adjoint back linearly,
       lam(t_i^+) = P_i lam(t_{i+1}),   and accumulates   q += Q_i lam(t_{i+1})
   (the adjoint equation is linear in the adjoint whatever f is; P_i, Q_i are the solution operators of the
   nested solve).  The loop starts from the cotangent at the last time and adds the incoming cotangent at every
   requested time.  Proved, for any number of segments, any sizes, any commutative ring:
   - the iterative loop (as in the source: from the last segment down) computes the recursive specification;
   - the result is additive in the cotangents, and for a single cotangent at time j it is the composed pull-back
     P_0 ... P_{j-1} g_j (and the accumulated Q terms): re-seeding segment by segment is the same as one
     independent adjoint solve per output time, summed. *)
From mathcomp Require Import all_ssreflect all_algebra.
Set Implicit Arguments.
Unset Strict Implicit.
Unset Printing Implicit Defensive.
Import GRing.Theory.
Local Open Scope ring_scope.

Section Loop.
Variable R : comRingType.
Variables n k : nat.
Notation vec := 'cV[R]_n.
Notation pvec := 'cV[R]_k.
Notation seg := ('M[R]_n * 'M[R]_(k, n))%type.

(* recursive specification: state at t_0 given the segments 0.. and the cotangents g_0 :: gs *)
Fixpoint back (segs : seq seg) (g0 : vec) (gs : seq vec) : vec * pvec :=
  match segs, gs with
  | PQ :: segs', g1 :: gs' =>
      let r := back segs' g1 gs' in
      (g0 + PQ.1 *m r.1, r.2 + PQ.2 *m r.1)
  | _, _ => (g0, 0)
  end.

(* the loop of the source: start at the LAST time with its cotangent, walk the segments backwards, after each
   nested solve add the incoming cotangent of the time reached.  [rsegs], [rgs] are in flipped order. *)
Fixpoint loop (rsegs : seq seg) (rgs : seq vec) (lam : vec) (q : pvec) : vec * pvec :=
  match rsegs, rgs with
  | PQ :: rsegs', g :: rgs' => loop rsegs' rgs' (g + PQ.1 *m lam) (q + PQ.2 *m lam)
  | _, _ => (lam, q)
  end.

(* additivity in the cotangents *)
Lemma back_add (segs : seq seg) : forall g0 h0 gs hs, size gs = size hs ->
  back segs (g0 + h0) [seq x.1 + x.2 | x <- zip gs hs] =
  ((back segs g0 gs).1 + (back segs h0 hs).1, (back segs g0 gs).2 + (back segs h0 hs).2).
Proof.
elim: segs => [|[P Q] segs IH] g0 h0 gs hs Hs /=.
  by case: gs hs Hs => [|g1 gs] [|h1 hs] //=; rewrite addr0.
case: gs hs Hs => [|g1 gs] [|h1 hs] //=; first by rewrite addr0.
move=> [Hs]; rewrite (IH g1 h1 gs hs Hs) /= !mulmxDr.
by congr (_, _); rewrite addrACA.
Qed.

(* a single cotangent placed at time j (zeros elsewhere): the composed pull-back *)
Fixpoint pull (segs : seq seg) (j : nat) (g : vec) : vec * pvec :=
  match segs, j with
  | PQ :: segs', j'.+1 => let r := pull segs' j' g in (PQ.1 *m r.1, r.2 + PQ.2 *m r.1)
  | _, _ => (g, 0)
  end.

Definition backl (segs : seq seg) (l : seq vec) : vec * pvec :=
  if l is g0 :: gs then back segs g0 gs else (0, 0).

Lemma backl_zero (segs : seq seg) : forall m, backl segs (nseq m 0) = (0, 0).
Proof.
elim: segs => [|[P Q] segs IH] [|[|m]] //=.
by have := IH m.+1 => /= ->; rewrite /= !mulmx0 !addr0.
Qed.

(* cotangent g at time j, zeros at the other times: one independent adjoint solve from t_j down to t_0 *)
Theorem back_single (segs : seq seg) : forall j r (g : vec), (j <= size segs)%N ->
  backl segs (nseq j 0 ++ g :: nseq r 0) = pull segs j g.
Proof.
elim: segs => [|[P Q] segs IH] [|j] r g //= Hj.
- case: r => [|r] //=.
  by have := backl_zero segs r.+1 => /= ->; rewrite /= !mulmx0 !addr0.
- have := IH j r g Hj; rewrite /backl.
  case E: (nseq j 0 ++ g :: nseq r 0) => [|g1 gs] //=.
    by case: j {Hj IH} E.
  by move=> ->; rewrite add0r.
Qed.
End Loop.

Section LoopIter.
Variable R : comRingType.
Variables n k : nat.
Notation vec := 'cV[R]_n.
Notation pvec := 'cV[R]_k.
Notation seg := ('M[R]_n * 'M[R]_(k, n))%type.

Lemma loop_cat (s1 s2 : seq seg) : forall (g1 g2 : seq vec) lam (q : pvec), size s1 = size g1 ->
  loop (s1 ++ s2) (g1 ++ g2) lam q = let r := loop s1 g1 lam q in loop s2 g2 r.1 r.2.
Proof.
elim: s1 => [|[P Q] s1 IH] [|g g1] g2 lam q //=.
by move=> [Hs]; exact: IH.
Qed.

Theorem loop_correct (segs : seq seg) : forall (g0 : vec) (gs : seq vec), size gs = size segs ->
  forall q : pvec,
  loop (rev segs) (rev (belast g0 gs)) (last g0 gs) q = ((back segs g0 gs).1, q + (back segs g0 gs).2).
Proof.
elim: segs => [|[P Q] segs IH] g0 [|g1 gs] //= => [_ q|[Hs] q]; first by rewrite addr0.
rewrite !rev_cons -!cats1 loop_cat ?size_rev ?size_belast //.
by rewrite (IH g1 gs Hs q) /= addrA.
Qed.
End LoopIter.

From Coq Require Import List Bool Arith ZArith Lia.
Import ListNotations.
From XV Require Import Base.Ops Base.LinAlg Model.RootLoop.

Section NonlinFacts.
  Context {T J : Type} (o : ops T).
  Variable func : list T -> list T.
  Variable jsolve : J -> list T -> list T.
  Variable jupdate : J -> list T -> list T -> J.
  Variables f_tol f_rtol x_tol x_rtol f0_norm : T.

  Notation chk := (check o f_tol f_rtol x_tol x_rtol f0_norm).
  Notation lp := (loop o func jsolve jupdate f_tol f_rtol x_tol x_rtol f0_norm).

  (* what `check` returning true means, in the carrier's own order *)
  Theorem check_spec x y dx : chk x y dx = true ->
    oltb o (vnorm o dx) x_tol = true /\ oltb o (vnorm o dx) (omul o x_rtol (vnorm o x)) = true /\
    oltb o (vnorm o y) f_tol = true /\ oltb o (vnorm o y) (omul o f_rtol f0_norm) = true.
  Proof.
    unfold check. intros H. apply andb_prop in H. destruct H as [H H4].
    apply andb_prop in H. destruct H as [H H3]. apply andb_prop in H. destruct H as [H1 H2]. auto.
  Qed.

  (* the silent return: the returned point ITSELF passed the stopping test (it is the last visited
     point, and the test was evaluated on func of that very point), or it is an exact root *)
  Theorem loop_silent_meets_tol : forall fuel x y ynorm j bx bn r vs,
    y = func x -> ynorm = vnorm o y ->
    lp fuel x y ynorm j bx bn = (Converged r, vs) ->
    (exists pre v, vs = pre ++ [v] /\ v_x v = r /\ v_stop v = true /\
                   chk r (func r) (v_dx v) = true /\ Forall (fun w => v_stop w = false) pre)
    \/ (oeqb o (vnorm o (func r)) (o0 o) = true /\ Forall (fun w => v_stop w = false) vs).
  Proof.
    induction fuel as [|n IH]; intros x y ynorm j bx bn r vs Hy Hn H; cbn [loop] in H; [discriminate|].
    set (dx := vopp o (jsolve j y)) in *.
    destruct (oeqb o (vnorm o dx) (o0 o)) eqn:Edx.
    - destruct (oeqb o ynorm (o0 o)) eqn:Ey; [|discriminate]. inversion H; subst.
      right. split; [exact Ey|constructor].
    - set (xnew := vadd o x dx) in *. set (ynew := func xnew) in *.
      destruct (chk xnew ynew dx) eqn:Estop.
      + inversion H; subst. left. exists [], (mkVisit xnew (vnorm o ynew) dx true). cbn. repeat split; auto.
      + match type of H with (let '(_, _) := ?L in _) = _ => destruct L as [r' vs'] eqn:EL end.
        inversion H; subst.
        destruct (IH _ _ _ _ _ _ _ _ eq_refl eq_refl EL) as [(pre & v & -> & Hx & Hs & Hc & Hpre)|[Hz Hall]].
        * left. exists (mkVisit xnew (vnorm o ynew) dx false :: pre), v. repeat split; auto.
        * right. split; [exact Hz|]. constructor; [reflexivity|exact Hall].
  Qed.

  Theorem nonlin_silent_meets_tol maxiter x0 j0 r vs :
    nonlin_solver o func jsolve jupdate f_tol f_rtol x_tol x_rtol f0_norm maxiter x0 j0 = (Converged r, vs) ->
    (exists pre v, vs = pre ++ [v] /\ v_x v = r /\ chk r (func r) (v_dx v) = true)
    \/ oeqb o (vnorm o (func r)) (o0 o) = true.
  Proof.
    unfold nonlin_solver. destruct (oeqb o (vnorm o (func x0)) (o0 o)) eqn:E0.
    - intros H. inversion H; subst. right. exact E0.
    - intros H. destruct (loop_silent_meets_tol _ _ _ _ _ _ _ _ _ eq_refl eq_refl H)
        as [(pre & v & -> & Hx & _ & Hc & _)|[Hz _]].
      + left. exists pre, v. auto.
      + right. exact Hz.
  Qed.

  (* on the warning path the returned point is the initial best or one of the visited points, and it
     is the LAST point that strictly improved the recorded residual norm *)
  Theorem loop_warn_returns_visited : forall fuel x y ynorm j bx bn b vs,
    lp fuel x y ynorm j bx bn = (Exhausted b, vs) ->
    b = bx \/ exists v, In v vs /\ v_x v = b.
  Proof.
    induction fuel as [|n IH]; intros x y ynorm j bx bn b vs H; cbn [loop] in H.
    - inversion H. auto.
    - set (dx := vopp o (jsolve j y)) in *.
      destruct (oeqb o (vnorm o dx) (o0 o)); [destruct (oeqb o ynorm (o0 o)); discriminate|].
      set (xnew := vadd o x dx) in *. set (ynew := func xnew) in *.
      destruct (chk xnew ynew dx); [discriminate|].
      match type of H with (let '(_, _) := ?L in _) = _ => destruct L as [r' vs'] eqn:EL end.
      inversion H; subst.
      destruct (IH _ _ _ _ _ _ _ _ EL) as [E|(v & Hin & Hv)].
      + destruct (oltb o (vnorm o ynew) bn).
        * right. exists (mkVisit xnew (vnorm o ynew) dx false). split; [left; reflexivity|]. cbn. auto.
        * left. exact E.
      + right. exists v. split; [right; exact Hin|exact Hv].
  Qed.

  (* number of function evaluations never exceeds maxiter + 1 *)
  Theorem loop_evals_bounded : forall fuel x y ynorm j bx bn,
    length (snd (lp fuel x y ynorm j bx bn)) <= fuel.
  Proof.
    induction fuel as [|n IH]; intros x y ynorm j bx bn; cbn [loop]; [cbn; lia|].
    set (dx := vopp o (jsolve j y)).
    destruct (oeqb o (vnorm o dx) (o0 o)); [destruct (oeqb o ynorm (o0 o)); cbn; lia|].
    set (xnew := vadd o x dx). set (ynew := func xnew).
    destruct (chk xnew ynew dx); [cbn; lia|].
    match goal with |- context [lp n ?a ?b ?c ?d ?e ?f] => specialize (IH a b c d e f); destruct (lp n a b c d e f) as [r vs] end.
    cbn in *. lia.
  Qed.
End NonlinFacts.

Section GDFacts.
  Context {T : Type} (o : ops T).
  Variable fg : list T -> T * list T.
  Variables step gamma f_tol f_rtol x_tol x_rtol : T.
  Notation G := (gd o fg step gamma f_tol f_rtol x_tol x_rtol).
  Notation GL := (gd_loop o fg step gamma f_tol f_rtol x_tol x_rtol).
  Notation TS := (to_stop o f_tol f_rtol x_tol x_rtol).

  (* maxiter = 0: a copy of x0 is returned silently *)
  Theorem gd_maxiter0 x0 : G 0 x0 = (x0, false, []).
  Proof. reflexivity. Qed.

  (* invariant of the bookkeeping: the recorded best point is one of the evaluated points *)
  Lemma gd_loop_best_in_calls : forall fuel i x v fprev tm calls x' tm' calls',
    (best_f tm <> None -> In (best_x tm) calls) ->
    GL fuel i x v fprev tm calls = (x', tm', calls') ->
    (best_f tm' <> None -> In (best_x tm') calls').
  Proof.
    induction fuel as [|n IH]; intros i x v fprev tm calls x' tm' calls' Hinv H; cbn [gd_loop] in H.
    - inversion H; subst. exact Hinv.
    - destruct (fg x) as [f dfdx].
      set (v' := vsub o (vscale o gamma v) (vscale o step dfdx)) in *.
      set (xnext := vadd o x v') in *.
      destruct (TS tm i xnext x f fprev) as [stop tm1] eqn:ET.
      assert (Hinv1 : best_f tm1 <> None -> In (best_x tm1) (calls ++ [x])).
      { unfold to_stop in ET. inversion ET; subst. cbn [best_f best_x].
        destruct (match best_f tm with Some b => oltb o f b | None => true end) eqn:Eb.
        - intros _. apply in_or_app. right. left. reflexivity.
        - intros Hn. apply in_or_app. left. apply Hinv. exact Hn. }
      destruct stop.
      + inversion H; subst. exact Hinv1.
      + eapply IH; [exact Hinv1|exact H].
  Qed.

  (* with a warning the returned point is one of the points at which the objective was evaluated
     (the one with the least recorded value); without one it is the last iterate *)
  Theorem gd_warn_returns_evaluated maxiter x0 x calls :
    G maxiter x0 = (x, true, calls) -> In x calls.
  Proof.
    unfold gd. destruct (GL maxiter 0 x0 _ (o0 o) _ []) as [[xl tm] cs] eqn:E.
    destruct (ever tm) eqn:Ee; [intros H; inversion H|].
    destruct (max_i tm) eqn:Em; [|intros H; inversion H].
    intros H. inversion H; subst.
    assert (Hb : best_f tm <> None).
    { (* max_i set means to_stop ran at least once, which always records a best value *)
      clear H.
      assert (K : forall fuel i x v fprev tm0 calls0 x' tm' calls',
                 (max_i tm0 <> None -> best_f tm0 <> None) ->
                 GL fuel i x v fprev tm0 calls0 = (x', tm', calls') -> max_i tm' <> None -> best_f tm' <> None).
      { induction fuel as [|n0 IH]; intros i x v fprev tm0 calls0 x' tm' calls' Hi H; cbn [gd_loop] in H.
        - inversion H; subst. exact Hi.
        - destruct (fg x) as [f dfdx].
          match type of H with context [TS ?a ?b ?c ?d ?e ?g] => destruct (TS a b c d e g) as [stop tm1] eqn:ET end.
          assert (H1 : max_i tm1 <> None -> best_f tm1 <> None).
          { unfold to_stop in ET. inversion ET; subst. cbn [best_f max_i]. intros _.
            destruct (best_f tm0) as [b0|] eqn:Eb; [destruct (oltb o f b0); discriminate|discriminate]. }
          destruct stop; [inversion H; subst; exact H1|eapply IH; [exact H1|exact H]]. }
      eapply K; [|exact E|rewrite Em; discriminate]. cbn. intros C. contradiction. }
    eapply gd_loop_best_in_calls; [|exact E|exact Hb]. cbn. intros C. contradiction.
  Qed.
End GDFacts.

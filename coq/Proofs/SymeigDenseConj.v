(* C06, dense path, COMPLEX Hermitian case, distinct or coinciding eigenvalues: degen_symeig.backward is the real-part adjoint of the
   tangent of  A = Y diag(e) Y^H,  Y^H Y = Y Y^H = 1,  e real.  cj is the conjugation, D a derivation commuting with it.
   With  W = Y^H G,  F_ij = 1/(e_j - e_i) off the mask and 0 on it,  R = Y (F o W) Y^H + Y diag(ge) Y^H,  result = (R + R^H)/2
   (exactly the code, eivect = eivec^H), for a cotangent that is gauge invariant - W Hermitian on the masked pairs, in particular
   its diagonal is real (the phases of the columns) - and EVERY Hermitian tangent dA:
         Re( tr(G^H dY) + sum_i ge_i de_i ) = Re tr(result^H dA). *)
From mathcomp Require Import all_ssreflect all_algebra.
From mathcomp Require Import ring.
From XV Require Import Base.Deriv Base.MxDeriv Proofs.SymeigBackward Proofs.SymeigConj.
Set Implicit Arguments.
Unset Strict Implicit.
Unset Printing Implicit Defensive.
Import GRing.Theory.
Local Open Scope ring_scope.

Section DenseConj.
Variable F : fieldType.
Variable cj : {rmorphism F -> F}.
Hypothesis cjK : involutive cj.
Local Notation "A ^H" := (map_mx cj A^T) (at level 2, format "A ^H").
Variable D : derivation F.
Hypothesis Dcj : forall a, D (cj a) = cj (D a).
Variable n : nat.
Local Notation d := (dmx D).
Variables (A Y : 'M[F]_n) (e : 'rV[F]_n).
Hypothesis HA : A^H = A.
Hypothesis HYhY : Y^H *m Y = 1%:M.
Hypothesis HYYh : Y *m Y^H = 1%:M.
Hypothesis Heig : A *m Y = Y *m diag_mx e.
Hypothesis He : forall i, cj (e 0 i) = e 0 i.
Variable half : F.
Hypothesis halfP : half + half = 1.
Local Notation Re := (Re cj half).

Let Om := Y^H *m d Y.
Let P := Y^H *m (d A *m Y).
Let dL : 'rV[F]_n := \row_i D (e 0 i).

Lemma adjD m p (U V : 'M[F]_(m, p)) : (U + V)^H = U^H + V^H.
Proof. by rewrite linearD /= map_mxD. Qed.
Lemma adjN m p (U : 'M[F]_(m, p)) : (- U)^H = - U^H.
Proof. by rewrite linearN /= map_mxN. Qed.
Lemma adjZ m p (a : F) (U : 'M[F]_(m, p)) : (a *: U)^H = cj a *: U^H.
Proof. by rewrite linearZ /= map_mxZ. Qed.
Lemma tr_adj (U : 'M[F]_n) : \tr (U^H) = cj (\tr U).
Proof. by rewrite /mxtrace rmorph_sum; apply: eq_bigr => i _; rewrite !mxE. Qed.
Lemma diag_real (r : 'rV[F]_n) : (forall i, cj (r 0 i) = r 0 i) -> (diag_mx r)^H = diag_mx r.
Proof.
move=> Hr; apply/matrixP=> i j; rewrite !mxE eq_sym; case: (i == j) / eqP => [->|_].
  by rewrite !mulr1n Hr.
by rewrite !mulr0n rmorph0.
Qed.

Lemma cj_half' : cj half = half.
Proof.
have H1 : cj half + cj half = 1 by rewrite -rmorphD halfP rmorph1.
by rewrite -[LHS]mulr1 -halfP mulrDr -mulrDl H1 mul1r.
Qed.

Lemma ReD a b : Re (a + b) = Re a + Re b.
Proof. by rewrite /SymeigConj.Re rmorphD /=; ring. Qed.
Lemma Re_real a : cj a = a -> Re a = a.
Proof. by move=> Ha; rewrite /SymeigConj.Re Ha mulrDr -mulrDl halfP mul1r. Qed.
Lemma Re_cj a : Re (cj a) = Re a.
Proof. by rewrite /SymeigConj.Re cjK addrC. Qed.

Lemma dc_diag : d (diag_mx e) = diag_mx dL.
Proof.
apply/matrixP=> i j; rewrite !mxE; case: (i == j); rewrite ?mulr1n ?mulr0n //.
by rewrite der0.
Qed.

Lemma Om_antiherm : Om^H = - Om.
Proof.
have := congr1 (@dmx _ D _ _) HYhY; rewrite dmxM dmx1 (d_adj Dcj) => H.
rewrite /Om adjM (adjK cjK).
by apply/eqP; rewrite -subr_eq0 opprK; apply/eqP.
Qed.

Lemma YhA : Y^H *m A = diag_mx e *m Y^H.
Proof. by rewrite -{1}HA -adjM Heig adjM (diag_real He). Qed.

Lemma Pc_eq : P = Om *m diag_mx e - diag_mx e *m Om + diag_mx dL.
Proof.
have := congr1 (@dmx _ D _ _) Heig; rewrite !dmxM dc_diag => H.
have : Y^H *m (d A *m Y + A *m d Y) = Y^H *m (d Y *m diag_mx e + Y *m diag_mx dL) by rewrite H.
rewrite !mulmxDr (mulmxA Y^H A) YhA -!mulmxA (mulmxA Y^H Y) HYhY mul1mx -/Om !mulmxA -/Om => H2.
rewrite /P mulmxA in H2 *.
apply/eqP; rewrite -subr_eq0; apply/eqP.
rewrite -(mulmxA Y^H) in H2.
move/eqP: H2; rewrite -subr_eq0 => /eqP H2.
rewrite -[RHS]H2 -mulmxA.
apply/matrixP=> i j; rewrite !mxE.
set p := (Y^H *m (d A *m Y)) i j; set a := (diag_mx e *m Om) i j.
set b := (Om *m diag_mx e) i j; set c := (diag_mx dL) i j.
by rewrite /=; ring.
Qed.

Lemma commc_entry (M : 'M[F]_n) (dl : 'rV[F]_n) i j :
  (M *m diag_mx e - diag_mx e *m M + diag_mx dl) i j = M i j * (e 0 j - e 0 i) + (if i == j then dl 0 i else 0).
Proof.
rewrite mul_mx_diag mul_diag_mx !mxE.
by case: (i == j) => /=; rewrite ?mulr1n ?mulr0n; ring.
Qed.

Lemma Pc_entry i j : P i j = Om i j * (e 0 j - e 0 i) + (if i == j then D (e 0 i) else 0).
Proof. by rewrite Pc_eq commc_entry; congr (_ + _); case: (i == j) => //; rewrite /dL mxE. Qed.

Lemma Pc_diag i : P i i = D (e 0 i).
Proof. by rewrite Pc_entry eqxx subrr mulr0 add0r. Qed.

(* the code *)
Variable mask : rel 'I_n.
Hypothesis mask_refl : forall i, mask i i.
Hypothesis mask_sym : forall i j, mask i j = mask j i.
Hypothesis Hsep : forall i j, ~~ mask i j -> e 0 i != e 0 j.
Variables (G : 'M[F]_n) (ge : 'rV[F]_n).
Hypothesis Hge : forall i, cj (ge 0 i) = ge 0 i.
Let W := Y^H *m G.
Hypothesis Hreq : forall i j, mask i j -> W i j = cj (W j i).
Let Fm : 'M[F]_n := \matrix_(i, j) (if mask i j then 0 else (e 0 j - e 0 i)^-1).
Let FW : 'M[F]_n := \matrix_(i, j) (Fm i j * W i j).
Let R := Y *m FW *m Y^H + Y *m diag_mx ge *m Y^H.
Let result := half *: (R + R^H).

Lemma Fmc_real i j : cj (Fm i j) = Fm i j.
Proof. by rewrite /Fm mxE; case: (mask i j); rewrite ?rmorph0 // fmorphV rmorphB /= !He. Qed.

Lemma Fmc_off i j : ~~ mask i j -> Fm i j = (e 0 j - e 0 i)^-1.
Proof. by move=> Hij; rewrite /Fm mxE (negbTE Hij). Qed.

Lemma Fmc_masked i j : mask i j -> Fm i j = 0.
Proof. by move=> Hij; rewrite /Fm mxE Hij. Qed.

Lemma Omc_entry i j : ~~ mask i j -> Om i j = Fm i j * P i j.
Proof.
move=> Hij; have Hne : i != j by apply: contra Hij => /eqP ->; exact: mask_refl.
rewrite Pc_entry (negbTE Hne) addr0 (Fmc_off Hij).
set x := Om i j; rewrite mulrCA mulVf ?mulr1 //.
by rewrite subr_eq0 eq_sym; exact: Hsep.
Qed.

Lemma tr_mulH (S T : 'M[F]_n) : \tr (S^H *m T) = \sum_j \sum_i cj (S i j) * T i j.
Proof. by rewrite /mxtrace; apply: eq_bigr => j _; rewrite mxE; apply: eq_bigr => i _; rewrite !mxE. Qed.

(* a Hermitian matrix is real-trace-orthogonal to an anti-Hermitian one *)
Lemma herm_antiherm_Re0 (S T : 'M[F]_n) : S^H = S -> T^H = - T -> Re (\tr (S^H *m T)) = 0.
Proof.
move=> HS HT; set t := \tr _.
have Ht : cj t = - t.
  by rewrite /t -tr_adj adjM (adjK cjK) HT mulNmx linearN /= mxtrace_mulC HS.
by rewrite /SymeigConj.Re Ht subrr mulr0.
Qed.

Let Wm : 'M[F]_n := \matrix_(i, j) (if mask i j then W i j else 0).
Let Wu : 'M[F]_n := \matrix_(i, j) (if mask i j then 0 else W i j).

Lemma Wmc_herm : Wm^H = Wm.
Proof.
have E : forall i j, (Wm^H) i j = cj (Wm j i) by move=> i j; rewrite !mxE.
have Wm_entry : forall i j, Wm i j = if mask i j then W i j else 0 by move=> i j; rewrite /Wm mxE.
apply/matrixP => i j; rewrite E !Wm_entry mask_sym.
by case Hij: (mask i j); rewrite ?rmorph0 // (Hreq Hij).
Qed.

Lemma trc_GdY : Re (\tr (G^H *m d Y)) = Re (\tr (FW^H *m P)).
Proof.
have -> : G^H *m d Y = W^H *m Om.
  by rewrite /W /Om adjM (adjK cjK) -mulmxA (mulmxA Y) HYYh mul1mx.
have -> : W = Wm + Wu.
  by apply/matrixP => i j; rewrite !mxE; case: (mask i j); rewrite ?addr0 ?add0r.
rewrite adjD mulmxDl linearD /= ReD (herm_antiherm_Re0 Wmc_herm Om_antiherm) add0r.
congr (Re _); rewrite !tr_mulH; apply: eq_bigr => j _; apply: eq_bigr => i _.
have -> : FW i j = Fm i j * W i j by rewrite /FW mxE.
rewrite [Wu i j]mxE; case Hij: (mask i j).
  by rewrite (Fmc_masked Hij) mul0r rmorph0 !mul0r.
have Hn : ~~ mask i j by rewrite Hij.
rewrite (Omc_entry Hn) rmorphM /= Fmc_real; set x := P i j; set w := cj (W i j); set f := Fm i j; ring.
Qed.

Lemma trc_ge : \sum_i ge 0 i * D (e 0 i) = \tr ((diag_mx ge)^H *m P).
Proof.
rewrite (diag_real Hge) /mxtrace; apply: eq_bigr => i _.
by rewrite mul_diag_mx mxE Pc_diag.
Qed.

Lemma dA_herm : (d A)^H = d A.
Proof. by rewrite -(d_adj Dcj) HA. Qed.

Lemma trc_conj (S : 'M[F]_n) : \tr (S^H *m P) = \tr ((Y *m S *m Y^H)^H *m d A).
Proof.
rewrite /P !adjM (adjK cjK).
have -> : S^H *m (Y^H *m (d A *m Y)) = (S^H *m Y^H *m d A) *m Y by rewrite !mulmxA.
by rewrite mxtrace_mulC !mulmxA.
Qed.

Lemma trc_symmetrised (S B : 'M[F]_n) : B^H = B -> Re (\tr ((half *: (S + S^H))^H *m B)) = Re (\tr (S^H *m B)).
Proof.
move=> HB; set t := \tr (S^H *m B).
have Hsb : \tr (S *m B) = cj t.
  by rewrite /t -tr_adj adjM (adjK cjK) HB mxtrace_mulC.
rewrite adjZ cj_half' adjD (adjK cjK) -scalemxAl linearZ /= mulmxDl linearD /= -/t Hsb.
rewrite /SymeigConj.Re !rmorphM !rmorphD /= cjK cj_half'.
set u := cj t.
have -> : half * (half * (t + u) + half * (u + t)) = (half * (half + half)) * (t + u) by ring.
by rewrite halfP mulr1.
Qed.

Theorem degen_symeig_backward_adjoint_conj :
  Re (\tr (G^H *m d Y) + \sum_i ge 0 i * D (e 0 i)) = Re (\tr (result^H *m d A)).
Proof.
rewrite ReD trc_GdY trc_ge -ReD -linearD /= -mulmxDl -adjD trc_conj /result (trc_symmetrised R dA_herm).
by rewrite /R mulmxDr mulmxDl.
Qed.
End DenseConj.
